#!/usr/bin/env python3-vt
"""Validate MANIFEST.json and every evidence file against the schemas."""
import json, sys, glob, os
import jsonschema
V = os.path.dirname(os.path.dirname(os.path.abspath(__file__)))
ms = json.load(open('/root/.vp/MANIFEST.schema.json'))
es = json.load(open('/root/.vp/EVIDENCE.schema.json'))
rc = 0
m = json.load(open(os.path.join(V, 'MANIFEST.json')))
try:
    jsonschema.validate(m, ms); print('MANIFEST ok,', len(m['checks']), 'checks')
except jsonschema.ValidationError as e:
    print('MANIFEST INVALID', e.message); rc = 1
for f in sorted(glob.glob(os.path.join(V, 'evidence', '*.json'))):
    try:
        jsonschema.validate(json.load(open(f)), es); print('ok', os.path.basename(f))
    except jsonschema.ValidationError as e:
        print('INVALID', f, e.message); rc = 1
claimed = {c['property_id'] for c in m['checks']}
na = {c['property_id'] for c in m.get('not_applicable', [])}
props = [json.loads(l)['id'] for l in open(os.path.join(V, 'properties.jsonl'))]
for p in props:
    if p not in claimed and p not in na:
        print('UNLISTED', p); rc = 1
sys.exit(rc)
