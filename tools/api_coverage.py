#!/venv/bin/python
"""Which functions of the anchored library files does a check's quick tier
actually execute?  (sys.monitoring PY_START with DISABLE after the first hit:
negligible cost.)  Lists public functions/methods defined in the property's
anchor files that the workload never entered -- candidates for unobserved
entry points.     usage: tools/api_coverage.py C14 [C05 ...]
Exploratory tool (not a check)."""
import ast, importlib, json, os, sys
V = os.path.dirname(os.path.dirname(os.path.abspath(__file__)))
sys.path = [p for p in sys.path if os.path.abspath(p or ".") != os.path.join(V, "tools")]
sys.path.insert(0, V); sys.path.insert(0, os.path.join(V, ".deps"))
os.environ.setdefault("PYTHONHASHSEED", "0")
from vf import core
core.setup_paths()
import warnings; warnings.filterwarnings("ignore")
REPO = core.REPO
props = {json.loads(l)["id"]: json.loads(l) for l in open(os.path.join(V, "properties.jsonl"))}
hit = set()
mon = sys.monitoring
TOOL = 3
mon.use_tool_id(TOOL, "apicov")
def on_start(code, off):
    fn = code.co_filename
    if fn.startswith(REPO + os.sep + "pyphysim"):
        hit.add((os.path.relpath(fn, REPO), code.co_qualname))
    return mon.DISABLE
mon.register_callback(TOOL, mon.events.PY_START, on_start)
mon.set_events(TOOL, mon.events.PY_START)

for pid in sys.argv[1:]:
    hit.clear()
    mon.restart_events()
    mod = importlib.import_module("vf.%s" % pid.lower())
    ctx = core.new_ctx(mod, "quick", 0)
    scale = int(os.environ.get("APICOV_DIV", "4"))
    for name, g in mod.GENS.items():
        n = max(20, g.quick // scale)
        for idx in range(min(n, g.quick)):
            core.run_one(mod, ctx, name, idx)
    core.cleanup_workdir()
    print("=====", pid, props[pid]["title"])
    for f in props[pid]["anchors"]["files"]:
        path = os.path.join(REPO, f)
        tree = ast.parse(open(path).read())
        defined = []
        def walk(node, prefix):
            for ch in ast.iter_child_nodes(node):
                if isinstance(ch, (ast.FunctionDef, ast.AsyncFunctionDef)):
                    q = prefix + ch.name
                    pragma = "pragma: no cover" in (ast.get_source_segment(open(path).read(), ch) or "")[:300]
                    defined.append((q, pragma))
                    walk(ch, q + ".<locals>.")
                elif isinstance(ch, ast.ClassDef):
                    walk(ch, prefix + ch.name + ".")
        walk(tree, "")
        missed = [q for q, pragma in defined if (f, q) not in hit
                  and not q.split(".")[-1].startswith("_") or
                  ((f, q) not in hit and q.split(".")[-1] in ("__init__",))]
        missed = [q for q in missed if (f, q) not in hit]
        plot = [q for q in missed if "plot" in q.lower() or "repr" in q.lower() or "_repr_" in q]
        missed = [q for q in missed if q not in plot]
        print("  %s: %d functions defined, %d entered; public never entered (%d):" % (
            f, len(defined), sum(1 for q, _ in defined if (f, q) in hit), len(missed)))
        for q in missed:
            print("      -", q)
