#!/usr/bin/env python3
"""tools/add_fixed.py <finding-id> <property> <commit> <what failed>"""
import json, sys, os
V = os.path.dirname(os.path.dirname(os.path.abspath(__file__)))
fid, prop, commit, what = sys.argv[1:5]
p = os.path.join(V, 'known_findings.json')
d = json.load(open(p))
d['findings'] = [f for f in d['findings'] if f['id'] != fid]
d['findings'].append({"id": fid, "property": prop, "status": "fixed", "commit": commit,
                      "record": "fixed: property=%s %s %s" % (prop, commit, what), "what": what})
json.dump(d, open(p, 'w'), indent=1)
print("recorded", fid)
