#!/usr/bin/env python3
"""Print the markdown table of seeded changes (from seeded/*/meta.json)."""
import json, glob, os
V = os.path.dirname(os.path.dirname(os.path.abspath(__file__)))
rows = []
for f in sorted(glob.glob(os.path.join(V, 'seeded', '*', 'meta.json'))):
    m = json.load(open(f))
    note = m.get('note', '')
    rows.append((m['seed_id'], m['breaks_property'], ', '.join(m['caught_by_quick_checks']) or 'none', note))
print("| seeded change | property | caught by (quick tier) | note |")
print("|---|---|---|---|")
for r in rows:
    print("| %s | %s | %s | %s |" % r)
print("\n%d seeded changes; %d were missed at first and led to a stronger workload." % (
    len(rows), sum(1 for r in rows if 'MISSED' in r[3])))
