#!/bin/bash
# Re-run every kept seeded change against the check(s) recorded as catching it
# (quick tier, scratch copies).  Prints one line per change; "LOST" = a change
# that was caught before is no longer caught.   usage: tools/recheck_seeded.sh [jobs] [filter]
J=${1:-6}; F=${2:-}
cd /verif
ls -d seeded/*${F}*/ | xargs -P $J -I{} bash -c '
d={}; id=$(basename $d)
checks=$(python3 -c "import json;print(\" \".join(json.load(open(\"$d/meta.json\"))[\"caught_by_quick_checks\"]))")
[ -z "$checks" ] && { echo "SKIP $id (not caught by any quick check)"; exit 0; }
out=$(SKIP_SUITE=1 tools/try_mutant.sh $d $checks 2>&1)
if echo "$out" | grep -q "PATCH-FAILED"; then echo "PATCH-FAILED $id"; exit 0; fi
lost=""
for c in $checks; do echo "$out" | grep -q "check $c exit=1" || lost="$lost $c"; done
demo=$(echo "$out" | grep -c "demo(mutant) exit=1")
if [ -n "$lost" ]; then echo "LOST $id :$lost"; else echo "ok $id ($checks) demo_fail=$demo"; fi
'
