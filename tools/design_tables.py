#!/usr/bin/env python3
"""Regenerate the two generated tables of DESIGN.md (9.2 findings, 9.4 seeded
changes) from known_findings.json and seeded/*/meta.json."""
import glob, json, os, re, subprocess
V = os.path.dirname(os.path.dirname(os.path.abspath(__file__)))
p = os.path.join(V, 'DESIGN.md')
s = open(p).read()

kf = json.load(open(os.path.join(V, 'known_findings.json')))['findings']
rows = ["| finding | property | status | what failed |", "|---|---|---|---|"]
for f in kf:
    st = f['status'] if f['status'] == 'known' else "fixed `%s`" % f['commit']
    what = f.get('what') or f.get('record', '')
    rows.append("| %s | %s | %s | %s |" % (f['id'], f['property'], st, what.replace('|', '/')))
ftable = "\n".join(rows) + "\n"
s, n1 = re.subn(r"\| finding \| property \| status \| what failed \|\n(\|.*\n)+", lambda m: ftable, s)

st = subprocess.run(['python3', os.path.join(V, 'tools', 'seeded_table.py')],
                    capture_output=True, text=True).stdout
s, n2 = re.subn(r"\| seeded change \| property \| caught by \(quick tier\) \| note \|\n(\|.*\n)+\n\d+ seeded changes;[^\n]*\n",
                lambda m: st, s)
assert n1 == 1 and n2 == 1, (n1, n2)
open(p, 'w').write(s)
print("findings rows:", len(kf), " seeded table regenerated")
