#!/bin/bash
# every kept seeded change must still apply to the current /repo tree
cd /repo
bad=0
for d in /verif/seeded/*/; do
  if ! git apply --check "$d/patch.diff" 2>/dev/null; then
    if ! patch -p1 --dry-run -s -f < "$d/patch.diff" >/dev/null 2>&1; then echo "DOES NOT APPLY: $d"; bad=$((bad+1)); fi
  fi
done
echo "$bad seeded patches do not apply"
