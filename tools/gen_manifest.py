#!/usr/bin/env python3
"""Regenerate MANIFEST.json from the table below (keeps it schema-valid)."""
import json
import os

V = os.path.dirname(os.path.dirname(os.path.abspath(__file__)))

# property -> (category, text, note, technique, design_ref)
CHECKS = {
    "C01": ("exploration",
            "Runtime monitors on the real modulators: every (class, order, phase-offset history) is built "
            "(orders enumerated completely), every index is round-tripped in several array shapes, and "
            "hundreds of thousands of received samples per run (on-point, noisy, far, boundary ladder down "
            "to 1e-9 of d_min, tiny/huge magnitudes) are decided against an independent longdouble "
            "nearest-point oracle; every unsupported cardinality is tried and must be refused.  Held on the "
            "executions listed in the evidence, not a proof.",
            "Trusts numpy longdouble arithmetic for the oracle; exact ties (relative gap <= 1e-12) excluded as the property states; NaN/inf samples not generated.",
            "icontract postconditions + independent nearest-point oracle over generated samples",
            "DESIGN.md §5 C01"),
    "C15": ("exploration",
            "Every PSK order 2..2^12 and QAM order 4..4^6 (plus BPSK/QPSK) is constructed and driven through histories of 0-4 "
            "phase-offset changes; after construction and after each change an independent pairwise search finds all "
            "minimum-distance pairs and checks that their labels differ in one bit.  Gray conversions are checked for all "
            "integers up to 2^16 (exhaustive), all 2^k and 2^k+-1 up to 2^62 and random 62-bit values in five scalar/array "
            "forms against a bit-by-bit reference; bit-error counting against int.bit_count over generated array pairs and axes.  "
            "Two genuine, test-pinned defects are listed as known findings and matched by mechanism only.",
            "Reference popcount/Gray code are Python big-int; minimum-distance pairs taken within 1e-9 relative; known findings matched only when the emitted table equals the pinned defective table exactly.",
            "enumeration of constellations + label/neighbour monitor; reference-model comparison for the integer codes",
            "DESIGN.md §5 C15"),
    "C12": ("exploration",
            "An icontract postcondition on the real doWF (also fired by the calls block diagonalisation makes) checks on every call: "
            "p >= 0 (exactly), sum = Pt, KKT for the RETURNED water level, agreement with an independent longdouble closed-form water-filling, "
            "50 feasible power moves never improve capacity, and permutation equivariance (the permuted call is under the contract too); "
            "gains span 12 decades incl. ties and integer dtypes, the number of switched-off channels 0..n-1 is forced, a fifth of the "
            "budgets sit exactly on a switch-off boundary, Es != 1 in two thirds of the cases.",
            "Backward-error tolerances 64 n eps (level + inverse gains); reference uses numpy longdouble.",
            "icontract postcondition + independent reference solution + perturbation probe",
            "DESIGN.md §5 C12"),
    "C16": ("exploration",
            "For every modulator/order (and PSK/QAM objects whose table was changed by phase-offset calls or replaced through "
            "setConstellation) d_min is measured on the emitted table and SER/BER/PER/SE returned by the real methods are compared, "
            "on a 361-point SNR grid plus random scalar/array inputs, with closed forms evaluated by an independent Q function and "
            "with Craig's exact integral (PSK bounds); range, monotonicity, BER<=SER<=K BER, PER and SE relations are checked on every point.",
            "SNR = Es/N0 with Es = 1 (unit energy is C01's obligation); absolute 4 eps allowed for the QAM 1-(1-p)^2 cancellation; Craig integral by scipy quad (1e-7 allowance).",
            "oracle over enumerated modulators x SNR grid, closed forms from the measured constellation",
            "DESIGN.md §5 C16"),
    "C20": ("exploration",
            "Each kernel is called on matrices built from an SVD with prescribed singular values (kappa known) and its defining "
            "identities are evaluated with kappa-scaled backward-error tolerances against numpy references: projection (Hermitian, "
            "idempotent, QA=A, complement, reflect twice), three chordal distances (agreement with a reference, symmetry, zero for a "
            "basis change, unitary and rescaling invariance), gmd (reconstruction, orthonormal factors, constant diagonal), whitening, "
            "diagonal-update inverse, peig/leig, least singular vectors, unit conversions over 30 decades (values, inverses, arguments "
            "not mutated, repeatability), bit widths (exhaustive to 4096).  The evidence records the worst observed error/tolerance ratio per monitor.",
            "np.linalg.eig-based kernels (whitening, peig/leig) are driven with eigenvalues separated by a relative gap >= 1e-3; get_principal_component_matrix only on tall/square inputs (its domain in the library).",
            "defining-identity oracles with condition-number-scaled tolerances",
            "DESIGN.md §5 C20"),
    "C13": ("exploration",
            "Every model (general, free-space, 3GPP, METIS PS7 with int/array wall counts, Okumura-Hata x 4 areas) is built, driven "
            "through histories of valid and invalid setter calls interleaved with queries, and each scalar/1-D/2-D/3-D distance query "
            "(6+ decades, straddling the too-small threshold found by bisection) is compared element-wise with scalar queries on a "
            "FRESH object carrying the final parameters; monotonicity, linear value in (0,1], inverse queries, Friis (0.01 dB) and "
            "closed-form anchors, raise/clamp policy, setter validation, and the sector/omni antenna pattern (peak, symmetry, floor, "
            "value, scalar==array) are monitored on every call.",
            "Shadowing (random by design) is off; antenna pattern constants are those of 3GPP 25.996 (70 deg/20 dB/14 dBi, 35 deg/23 dB/17 dBi).",
            "reference-model (fresh object) comparison + relation monitors over generated setter/query histories",
            "DESIGN.md §5 C13"),
    "C09": ("exploration",
            "icontract postconditions on the real block_diagonalize, block_diagonalize_no_waterfilling, calc_receive_filter and the "
            "WhiteningBD / EnhancedBD entry points decide every call made by a workload that re-uses one object for several "
            "precodings (power/noise reassigned, channel array overwritten in place), with per-user large-scale gains spread over up "
            "to 100 dB, all five stream-reduction metrics and every admissible stream count: newH = H Ms, inter-user leakage, "
            "per-transmitter power (<= Pu, max = Pu, all = Pu without water-filling), receive filter = inverse on every powered "
            "stream, stream counts vs shapes, exact per-user power and complete removal of external interference (fixed metric).",
            "Leakage tolerance is absolute in ||H||_2 (256 eps n ||H|| ||Ms_k||); a stream is 'powered' when its effective gain exceeds 1e-10 of the largest; optimality of the stream count chosen by capacity/throughput metrics is not part of the property and not asserted.",
            "icontract postconditions on the real precoder methods under generated multi-round workloads",
            "DESIGN.md §5 C09"),
    "C11": ("exploration",
            "The harness supplies the raw channel matrix (and applies path loss itself), so an independent stream-by-stream oracle "
            "sum |u^H H f|^2 decides calc_SINR / calc_JP_SINR (plain and ext-int), rescaling invariance, non-negativity, calc_Q / "
            "calc_JP_Q / ext-int covariance (value, Hermitian, PSD), the IA-solver calc_SINR (three setter routes) against both the "
            "channel object and the oracle, dB conversion and sum capacity (also calc_shannon_sum_capacity over 33 decades / 400 "
            "streams); 1-3 rounds on the same channel object change path loss, noise and the matrix between evaluations.",
            "Relative tolerance 256 eps n (1+SINR) (the library subtracts the own-stream covariance); K >= 2 with generic precoders so denominators are positive; the solver API has no ext-int input so solver-vs-ext-int is outside its domain.",
            "independent first-principles oracle vs the real SINR/covariance methods over generated multi-round histories",
            "DESIGN.md §5 C11"),
    "C08": ("exploration",
            "Operation histories (5-40 ops: randomize with the same or a new antenna configuration, init from a matrix, set/change/remove "
            "path loss, noise variance, post filters, single-view reads, full reads, corrupt_data) are run on plain and ext-int "
            "objects in lock-step with a reference model that holds the raw matrix (known from init, or read from an identically "
            "seeded twin that never gets a path loss); after reads every view (H, big_H, get_Hkl, get_Hk, big_H_no_ext_int, "
            "H_no_ext_int, get_Hk_without_ext_int) must equal raw*sqrt(current path loss) within 4 ulp, and every transmission must "
            "equal W^H(big_H x + last_noise) split by receive antennas, with last_noise None iff no noise.",
            "Post filters are square per receiver; the user count is not changed while a path loss is in force; randomness of the noise itself is not checked, only that exactly the reported noise was added.",
            "reference-model lock-step over generated operation histories (dense and sparse read patterns)",
            "DESIGN.md §5 C08"),
    "C10": ("exploration",
            "Every solver (closed form, alternating minimisation, min leakage, max SINR, MMSE) is run on generated channels (equal and "
            "unequal antennas, 1..min-1 streams with Ns >= 2 forced for min-leakage, scalar/vector powers, all initialisation modes, "
            "1-60 iterations) and then driven through 1-8 public setter operations (P=, set_precoders(F|full_F), "
            "set_receive_filters(W|W_H), randomizeF, solve again); after the solve and after EVERY operation the relations among the "
            "public properties are evaluated: unit-norm precoders, full_F = sqrt(P) F (power never exceeded), full_W_H H_kk full_F = I, "
            "W/W_H and full_W/full_W_H Hermitian pairs, stream counts vs shapes, closed-form nulling (also with fewer streams than half "
            "the antennas), solver.P equal to the power passed to solve (re-solves use a new power).  Leakage monotonicity is observed "
            "twice: repeated one-iteration solves ('fix' initialisation) and a sys.monitoring trace of every iteration inside one solve; "
            "the two routes must agree.  The stream-selecting wrappers (greedy stream reduction, brute force over stream combinations) "
            "are driven on small channels: whatever they settle on, the wrapped solver must hold a valid solution at the requested power.",
            "MMSE Lagrange-multiplier RuntimeError is tallied as a decline; MaxSINR/MMSE only with noise > 0; leakage increase allowed 1e-9 relative + 1e-12 of the initial unfiltered interference.",
            "property-relation monitor after every setter + black-box and sys.monitoring trace observation of the iteration cost",
            "DESIGN.md §5 C10"),
    "C18": ("exploration",
            "Prime selection is enumerated for every size 25..1200 (plus the tabulated 12/24 and invalid sizes) against an independent "
            "sieve, together with exact cyclic extension and agreement with a Zadoff-Chu reference whose phase is reduced with integer "
            "arithmetic; CAZAC relations (unit amplitude, zero cyclic autocorrelation by FFT and by direct sums, flat spectrum), "
            "cyclic-shift orthogonality for all SRS/DMRS shift pairs, and the estimators (plain, comb, cover code; 1-4 antennas; "
            "normalised or not; 1-5 simultaneous users placed inside their shift windows or on the other cover code) are decided on "
            "noise-free observations assembled by the harness from the published sequence arrays against a defining-sum DFT of the "
            "true taps; the LS estimator on full-row-rank real and complex pilots in its 2-D and both 3-D forms.",
            "Library phases are allowed 8 eps pi u N (double-precision evaluation of exp(-j pi u n(n+1)/N)); multi-user scenarios only for lengths that are multiples of the number of shifts, as the property states.",
            "enumeration + independent reference sequences/DFT oracle over generated pilot scenarios",
            "DESIGN.md §5 C18"),
    "C04": ("exploration",
            "icontract postconditions on every encode() (shape, energy per channel use = mean symbol energy) plus a driver that "
            "re-uses one object for 1-3 channels (constructor or set_channel_matrix, vector or matrix form) and checks "
            "decode(H encode(x)) = x for BLAST, MRC, MRT, SVD, GMD (square and rectangular) and Alamouti over channels with "
            "prescribed singular values (kappa up to 1e4, four singular-value classes) and real/complex/integer data; ZF filter "
            "times H = I, MMSE filter against an independent solve and its normal equations, monotone convergence of MMSE to ZF along "
            "noise 1e-1..1e-12, BLAST filter selection, and rejection of wrong shapes.",
            "Round trips at noise variance 0/None only; tolerance 256 eps n kappa(H) ||x||.",
            "icontract postconditions + round-trip and defining-equation oracles on condition-controlled channels",
            "DESIGN.md §5 C04"),
    "C14": ("exploration",
            "Histories of generate(n)/skip(n) requests (n up to 1e5, cumulative positions forced at 1e3..1e10) are run on generators "
            "over six sampling intervals, four Doppler classes (incl. 0), 1-20 rays and four shapes.  The monitor keeps an integer "
            "sample counter, records the phases the generator drew from the RandomState proxy it was given, and compares sampled "
            "positions of every request with the closed-form Jakes sum evaluated in longdouble; a black-box twin (same seed, one skip + "
            "one request) decides chunking independence without internals; shape/count, magnitude bound and zero-Doppler constancy are "
            "checked on every request.  Sizes are passed as Python or fixed-width numpy integers, returned chunks are held by reference "
            "and re-compared after later requests, and the module-level generate_jakes_samples() is driven in continuation chains "
            "(returned time and phases passed back in) against the same model.",
            "Tolerance sqrt(L)(2 pi Fd t eps 40 + 1e-12): met by any implementation forming k*Ts in double, violated by a 1e-10 relative drift; if the phases cannot be identified from sample 0 the absolute model degrades to 'not attached' and the twin decides.",
            "reference model (integer position + closed-form sum) in lock-step with request histories, plus black-box twin",
            "DESIGN.md §5 C14"),
    "C19": ("exploration",
            "Independent kernels (crossing-number point-in-polygon and distance-to-boundary on the shape's own vertices; disc for the "
            "circle) decide: is_point_inside_shape for hexagon, square/non-square rectangle, circle, Cell, Cell3Sec (non-convex), "
            "CellSquare and CellWrap at positions/radii over several decades and rotations in [-720,720] (uniform, multiples of 30/45/90 "
            "and +-1e-9), with query points inside, outside and at every edge +- delta down to 1e-9 radius; random users (containment "
            "and minimum distance, refusal of outside users); border points (on the boundary, exact direction, linear in the ratio, "
            "border users); clusters of sizes 1,3,4,7,13,19 (simple, 3-sector) and square grids 1,4,9,16 under rotation (congruent "
            "cells, centroid, neighbour spacing 2 apothems / one side, disjoint interiors by kernel and by the library's own test, "
            "user-to-cell distance matrices); and the circle/rectangle point processes.  A third of the hexagon/circle/Cell/Cell3Sec "
            "shapes are reached through their pos/radius/rotation setters in random order; sector users are checked against an "
            "independent sector hexagon; users seen through a CellWrap copy must be the translated originals inside the copy after "
            "either cell moved; border ratios include 0, 1 and 1e-12.",
            "Points within 1e-9 radius of the boundary are tallied as tie zone; np.random is seeded per case; uniformity of random placement is not checked (not part of the property).",
            "independent geometric kernels as oracle over generated shapes, rotations and boundary-ladder queries",
            "DESIGN.md §5 C19"),
    "C06": ("exploration",
            "For generated observation sequences (four result types, accumulation on/off, exact dyadic and arbitrary float values) every "
            "contiguous partition into chunks is accumulated into separate Result objects and merged in a left fold, right fold or random "
            "binary tree; the merged object's public statistics (value, total, sums, update count, mean, variance, accumulated lists, ==) "
            "are compared with the single big accumulation (== for the exact class, 64 n eps of the absolute sums for floats).  Every "
            "object used as merged-in operand is snapshotted and re-compared after the merge and at the end of the history (aliasing).  "
            "The same law is checked through merge_all_results (incl. the runner's merge-into-empty pattern) / append_all_results on "
            "1-3 result names (the runner's skip counter present in a random subset of the sets must be conserved), for results "
            "objects holding several parameter combinations (append_all_results then merge_all_results under random groupings: each "
            "combination equals the accumulation of its own repetitions, earlier combinations stay bit-identical), and per union-grid "
            "combination for combine_simulation_results with none/partial/full overlap.",
            "For MISC results only 'last observation wins' (value, lists) is required; chunks are non-empty.",
            "reference-model comparison (single accumulation) over generated partitions/merge trees + operand-snapshot monitor",
            "DESIGN.md §5 C06"),
    "C17": ("exploration",
            "Generated parameter dictionaries (python and numpy scalars of every width, flat/nested lists, sets, 0-3-D real arrays incl. "
            "empty shapes, narrow dtypes and non-contiguous views, any subset of iterables marked unpacked, unpacked children) and result "
            "sets (all types x accumulation x histories of 0-10 updates and merges of multi-update results, repetition counts) are pushed "
            "through every round trip, once and again after the same object received further updates/merges: JSON string, JSON "
            "file, pickle file, extension-less and templated file names, parameter pickle files, Result to_json/to_dict.  Each loaded "
            "object is compared with the original by the classes' own == (which must not raise) and by an independent by-value "
            "canonical form read from the object's state, not from to_dict() (strict types for pickle), then saved and loaded again; file names must equal the replaced template, be "
            "deterministic and distinct for distinct scalar values.",
            "By-value semantics for JSON (a float32 may come back as a Python float with the same number); lists containing arrays and tuples are not generated.",
            "round-trip oracle with independent canonical-form comparison over generated objects",
            "DESIGN.md §5 C17"),
    "C05": ("exploration",
            "A ProbeRunner subclass implements only the documented extension points (_run_simulation, _keep_going, "
            "_on_simulate_current_params_start), logs every call and tags every successful repetition with a unique id carried in an "
            "accumulating Result.  A 40-line reference model (row-major product over sorted unpacked names, do-while repetition loop, "
            "skips never counted) predicts the call trace, the ids merged per variation, repetition counts and skip counts for generated "
            "grids (0-3 unpacked parameters), rep_max values, early-stop predicates and SkipThisOne patterns (incl. the first attempt of "
            "a variation); the trace and stored results must match exactly, results are looked up by random fixed-value subsets "
            "(get_pack_indexes / get_result_values_list vs brute force), every runner is simulated twice (no carry-over), and "
            "single-variation mode is checked against its partial-results file.  Half of the runners are then RECONFIGURED by the user "
            "(new rep_max, stop rule, skip pattern, new values of the unpacked parameters) and simulated again, in all-variation and "
            "in single-index mode.  In situ: the repository's own AWGN simulator (apps/awgn_modulators) runs unmodified; only its two "
            "extension points are wrapped to record events, and an offline checker requires the documented loop and exact stored sums.",
            "Serial simulate() only (ipyparallel is not installed); values are dyadic so merged sums compare with ==.",
            "instrumented subclass trace + executable reference model, exactly-once ids",
            "DESIGN.md §5 C05"),
    "C07": ("fault_enumeration",
            "For each generated configuration a fault-free dry run discovers the crash points (before/after every _run_simulation call, "
            "every results-file write torn after 0 / 1 / a third / half / len-1 bytes, before/after every os.replace); every enumerated "
            "point is executed in a forked child that os._exit()s there (real code, real files, failpoints installed from the harness in "
            "the child only).  The parent then reads what is durable on disk, restarts a second fault-free child and decides the recorded "
            "history: the restart completes, every variation ends with exactly rep_max distinct repetition ids equal to the durable ids "
            "followed by the newly executed ones (first and second run draw ids from disjoint ranges), repetition counts match, the "
            "final results file is loadable and identical, partial files are deleted when requested.  Small configurations are "
            "enumerated completely (quick: 15 of 18 configurations, about 600 crash points; thorough: all points of every small "
            "configuration, strided for rep_max around the 500-repetition save period, plus double crashes); guard histories restart "
            "with changed fixed values / unpacked lists / extra parameters (must be refused, files untouched) and a larger rep_max "
            "(must resume).  Every atomic save logs what it made durable and that work must still be held by a file at the crash; "
            "a third of the configurations stop early through _keep_going; same-object histories raise KeyboardInterrupt / "
            "RuntimeError / MemoryError inside repetition k and call simulate() again on the same runner.",
            "A crash is os._exit at the failpoint (nothing buffered is flushed); torn writes keep the first b bytes; the machine itself does not lose renamed files (no fsync modelling).",
            "crash-point enumeration with forked children + offline history checker (exactly-once ids, durable + new)",
            "DESIGN.md §5 C07"),
    "C02": ("exploration",
            "For generated (fft, cp, used) configurations incl. odd FFT sizes and the forced extremes, the emitted signal is checked for "
            "length, bit-exact prefix copies, the closed-form used-subcarrier set and an empty DC/guard band through an independent DFT of "
            "every symbol body; demodulate(modulate(x)) must return x followed by zeros for ragged input lengths; invalid parameters must "
            "be refused.  The channel part sends the signal through real TdlChannel objects with a zero-Doppler Jakes generator (1-6 "
            "taps, sorted / unsorted / colliding delays, memory in {0,1,cp-1,cp}, memory = cp = fft forced) and compares "
            "equalize_data(demodulate(r), reported impulse response) with the input, with a tolerance scaled by max|H|/min|H| of the "
            "oracle's own DFT of the reported taps.  The caller's received buffer must keep its values and demodulate to the same "
            "symbols a second time.",
            "Ill-conditioned channels (min|H| < 1e-6 max|H| on the used subcarriers) are tallied, not decided; SISO only.",
            "signal-structure oracle (independent DFT) + end-to-end equalisation check over generated configurations",
            "DESIGN.md §5 C02"),
    "C03": ("exploration",
            "Single-link (TdlChannel SISO/MIMO, SuChannel with/without path loss, SuMimoChannel) and multi-user (MuChannel, MuMimoChannel "
            "with path-loss matrices) objects are driven through histories of 1-6 transmissions mixing time- and frequency-domain calls, "
            "direction switches and path-loss changes; after EVERY transmission the impulse response reported for it is read back and "
            "the oracle recomputes the output from it by a direct tap loop (time-varying convolution, length input+memory) or by a "
            "defining-sum DFT per block for every subcarrier selection (None, index arrays, lists, slices with steps and open ends); "
            "multi-user outputs are the sum of the per-link oracles; linearity is checked on time-invariant channels; discretisation is "
            "checked against an independent unique/round/merge computation (COST259 and random profiles, single-tap profiles included).",
            "Frequency-domain oracle restricted to channel memory < fft size; tap sample index = input sample index.",
            "oracle recomputed from the reported impulse response after each transmission of generated histories",
            "DESIGN.md §5 C03"),
}

PENDING_REASON = "check not built yet in this session (design in DESIGN.md §5); will be claimed once its monitors run clean on the unchanged tree"


# later widenings (appended to the texts above)
EXTRA = {
    "C01": "A dedicated generator tries 700 phase offsets per run on fresh PSK objects (constructor, setter, setter after use); received samples also arrive in float and integer arrays.",
    "C04": "Channels also come at 1e-8..1e-5 scale; the caller's channel buffer is refilled in place and the same array object handed over again.",
    "C07": "A fifth of the configurations write the default progress bar to files; a third of the write interruptions are delivered as KeyboardInterrupt inside the write call (handlers and finally blocks run) instead of a hard kill; guard histories include parameter changes in the 7th digit and of 1e-9-magnitude values.",
    "C08": "Path-loss matrices also come with integer dtype (all ones, 0/1 masks).",
    "C09": "Solutions handed out earlier are held and re-compared after later calls on the same object.",
    "C10": "Precoders are also installed under-powered with an explicit P; installed receive filters must read back as installed; the wrappers are used twice and the power changed afterwards; the svd initialisation runs for any antenna configuration.",
    "C11": "Noise values also as int / np.int64 / np.float64; zero-forcing joint precoders without noise must give non-negative, non-NaN SINRs; installed receive filters must read back as installed.",
    "C12": "Two consecutive solves on one buffer refilled in place; in situ, the problem block diagonalisation hands to doWF is compared with the channel's water-filling problem derived independently (null-space gains, noise, budget); gains also at 1e-14 and 1e14 scale.",
    "C13": "Exact zero distances; whole-degree angles in integer arrays; the limits of every parameter range; the plot helper called on a caller-supplied axis inside the setter histories must leave the configuration unchanged.",
    "C14": "Shapes are re-assigned also within the same rank / link count; a similar generator obtained from get_similar_fading_generator obeys the same law.",
    "C15": "Bit-error operands also in different integer widths and in Fortran / swapped-axes memory order.",
    "C16": "Modulators of the same order from different families are queried alternately with the same scalar SNR and packet length.",
    "C17": "Parameter values include +-inf; unpacked children get unpack marks of their own; neighbouring floats (nextafter, 0.1+0.2 vs 0.3) must give distinct file names.",
    "C18": "calcBaseZC with integer offsets q against an exact-integer phase reference; sequence objects indexed with negative integers and slices; users of a same-index root with another explicit Nzc are created first.",
    "C20": "gmd in its tolerance form; selectors on wide matrices with few requested vectors; the inverse update on general (non-Hermitian) matrices; leig on rank-deficient covariances.",
}


def main():
    for k, extra in EXTRA.items():
        cat, text, note, tech, ref = CHECKS[k]
        CHECKS[k] = (cat, text + "  " + extra, note, tech, ref)
    props = [json.loads(l) for l in open(os.path.join(V, "properties.jsonl"))]
    checks = []
    na = []
    for p in props:
        pid = p["id"]
        if pid in CHECKS:
            cat, text, note, tech, ref = CHECKS[pid]
            checks.append({
                "property_id": pid,
                "quick_cmd": "./check %s quick" % pid,
                "thorough_cmd": "./check %s thorough" % pid,
                "evidence_file": "/verif/evidence/%s.json" % pid,
                "replay_cmd_template": "./check %s --replay {path}" % pid,
                "engine": "vf",
                "level_claimed": {"category": cat, "text": text, "design_ref": ref},
                "level_note": note,
                "technique": tech,
            })
        else:
            na.append({"property_id": pid, "reason": PENDING_REASON})
    m = {
        "version": 1,
        "setup_cmd": "sh ./setup.sh",
        "hooks": {
            "guard": "PYPHYSIM_VERIF",
            "enable": "no source hooks: ./check exports PYPHYSIM_VERIF=1 and attaches all monitors from the harness (icontract decorators on the imported classes, sys.monitoring callbacks, audit hooks, instrumented subclasses); /repo is imported from its working tree in a fresh interpreter",
            "baseline_off_cmd": "cd /repo && /venv/bin/python -m pytest -ra -q -p no:cacheprovider --timeout=900 --continue-on-collection-errors",
            "source_commits": [],
            "add_only": True,
        },
        "engines": [{
            "name": "vf", "path": "/verif/vf",
            "serves_properties": [c["property_id"] for c in checks],
            "kind_free_text": "runtime monitoring harness: seeded case generators drive the real pyphysim code; icontract contracts, reference models, sys.monitoring traces and crash failpoints observe it; deterministic oracles decide every execution; three-valued verdict",
        }],
        "checks": checks,
        "notes": "Exit codes: 0 held on everything observed, 1 violation (VIOLATION line + replay file), 2 inconclusive (a deciding monitor was never reached / worker died). VERIF_SEED and VERIF_TIER honoured. Known findings: /verif/known_findings.json.",
        "not_applicable": na,
    }
    with open(os.path.join(V, "MANIFEST.json"), "w") as f:
        json.dump(m, f, indent=1)
    print("MANIFEST: %d checks, %d not yet claimed" % (len(checks), len(na)))


if __name__ == "__main__":
    main()
