#!/venv/bin/python
"""Run the repository's own test-suite with the harness' icontract contracts
attached (C01 modulators, C04 MIMO encode, C09 block diagonalisation, C12
water-filling): the tests become an extra workload, the contracts the oracle.
A contract that fires here is either too strict or a defect no test asserts.
Usage: tools/suite_under_contracts.py [pytest args...]   (exploratory tool)"""
import os, sys, json
V = os.path.dirname(os.path.dirname(os.path.abspath(__file__)))
sys.path.insert(0, V)
from vf import core
core.setup_paths()
import warnings; warnings.filterwarnings("ignore")
from vf import monitors
from vf import c01, c04, c09, c12     # attaches the contracts on import
import pytest

ctx = core.Ctx("SUITE", "quick", 0)
monitors.ACTIVE[0] = ctx
os.chdir(core.REPO)
rc = pytest.main(["-q", "-p", "no:cacheprovider", "-x" if False else "-q",
                  "tests/modulators_package_test.py", "tests/mimo_package_test.py",
                  "tests/comm_package_test.py", "tests/ia_package_test.py"] + sys.argv[1:])
monitors.ACTIVE[0] = None
print("pytest rc", rc)
print("contract evaluations:", json.dumps(monitors.CONTRACT_EVALS, indent=0))
print("monitor evals:", ctx.monitor_evals)
print("violations:", ctx.viol_count)
for k, wl in ctx.witnesses.items():
    print("--", k); print(json.dumps(wl[0]["detail"], indent=0)[:1200])
print("harness errors:", ctx.harness_errors[:3])
