#!/bin/bash
# tools/sweep_quick.sh [seeds...]: every quick check on the current tree; prints
# only what needs attention (VIOLATION / INCONCLUSIVE lines, non-zero exits).
cd "$(dirname "$0")/.."
for s in "${@:-0}"; do
  for c in C01 C02 C03 C04 C05 C06 C07 C08 C09 C10 C11 C12 C13 C14 C15 C16 C17 C18 C19 C20; do
    out=$(VERIF_SEED=$s ./check $c quick 2>&1); rc=$?
    echo "$out" | grep -E "^(VIOLATION|INCONCLUSIVE)" | cut -c1-220
    [ $rc -ne 0 ] && echo "EXIT $rc: $c seed=$s"
  done
done
echo "sweep done: seeds ${*:-0}"
