#!/bin/bash
# tools/try_mutant.sh <dir with patch.diff [demo.py]> <Cxx> [more Cxx...]
# Validates a seeded change (suite still passes, demo fails with / passes
# without) and runs the quick checks against a scratch copy of /repo with the
# change applied.  Nothing in /repo or /verif/evidence is touched.
set -u
MD=$(cd "$1" && pwd); shift
S=/tmp/mutscratch.$$
mkdir -p $S && rsync -a --exclude .git --exclude '_mut' /repo/ $S/repo/
cd $S/repo
if ! patch -p1 -s --no-backup-if-mismatch < "$MD/patch.diff"; then echo "PATCH-FAILED"; rm -rf $S; exit 3; fi
if [ "${SKIP_SUITE:-0}" != 1 ]; then
  timeout 1200 unshare -n bash -c 'ip link set lo up; /venv/bin/python -m pytest -q -p no:cacheprovider --deselect "tests/channel_estimation_package_test.py::ChannelEstimationFunctionsTest::test_compare_empirical_mmse_MSE_with_theoretical"' 2>&1 | tail -1 | sed 's/^/suite(mutant): /'
fi
if [ -f "$MD/demo.py" ]; then
  (cd /repo && timeout 600 /venv/bin/python "$MD/demo.py" >/dev/null 2>&1; echo "demo(pristine /repo) exit=$?")
  (cd $S/repo && timeout 600 /venv/bin/python "$MD/demo.py" >/dev/null 2>&1; echo "demo(mutant) exit=$?")
fi
cd /verif
for c in "$@"; do
  VF_REPO=$S/repo VF_EVIDENCE_DIR=$S/ev VF_REPLAY_DIR=$S/rp timeout 1200 ./check $c ${TIER:-quick} > $S/out.$c 2>&1; rc=$?
  echo "check $c exit=$rc  $(grep -c '^VIOLATION' $S/out.$c) violation lines"; grep '^VIOLATION' $S/out.$c | head -${SHOW:-3} | cut -c1-220; grep '^INCONCLUSIVE' $S/out.$c | head -3 | cut -c1-300
done
rm -rf $S
