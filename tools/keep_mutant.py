#!/usr/bin/env python3
"""tools/keep_mutant.py <srcdir> <seed-id> <property> <caught-by: comma list or 'none'> [note]
Copies patch.diff/demo.py/README.md to /verif/seeded/<seed-id>/ and writes meta.json."""
import json, os, shutil, sys
V = os.path.dirname(os.path.dirname(os.path.abspath(__file__)))
src, sid, prop, caught = sys.argv[1:5]
note = sys.argv[5] if len(sys.argv) > 5 else ""
dst = os.path.join(V, 'seeded', sid)
os.makedirs(dst, exist_ok=True)
for f in ('patch.diff', 'demo.py', 'README.md'):
    if os.path.exists(os.path.join(src, f)):
        shutil.copy(os.path.join(src, f), os.path.join(dst, f))
readme = open(os.path.join(dst, 'README.md')).read() if os.path.exists(os.path.join(dst, 'README.md')) else ''
meta = {
    "seed_id": sid, "breaks_property": prop,
    "origin": "independent sub-agent given only the property text and a scratch worktree",
    "needs_to_manifest": readme.strip()[:1500],
    "what_was_run": [
        "tools/try_mutant.sh <dir> %s : scratch copy of /repo + patch; repository suite (only the 22 pre-existing np.int failures, flaky tests aside); demo.py exit 0 on pristine /repo and exit 1 on the patched copy; ./check <prop> quick with VF_REPO=<patched copy>" % prop],
    "caught_by_quick_checks": [] if caught == 'none' else caught.split(','),
    "note": note,
}
json.dump(meta, open(os.path.join(dst, 'meta.json'), 'w'), indent=1)
print("kept", sid)
