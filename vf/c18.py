"""C18 -- reference sequences are CAZAC; pilot based estimation is exact."""
from __future__ import annotations

import math

import numpy as np

from .core import Gen
from . import num
from .num import EPS, fro, herm

from pyphysim.reference_signals import root_sequence as RS
from pyphysim.reference_signals import zadoffchu as ZC
from pyphysim.reference_signals import srs as SRS
from pyphysim.reference_signals import dmrs as DMRS
from pyphysim.reference_signals import channel_estimation as CE
from pyphysim.channel_estimation import estimators as EST

ID = "C18"
RULE = ("prime selection: every size 25..1200 (plus 12 and 24) x several "
        "roots, exhaustive; CAZAC relations on (root, size) pairs incl. every "
        "LTE size (multiples of 12) in the thorough tier; cyclic-shift "
        "orthogonality for all shift pairs at lengths that are multiples of "
        "8 (SRS) / 12 (DMRS); estimators: noise-free observations assembled by "
        "the harness from the published sequence arrays for channels with "
        "1..kept taps, 1-4 antennas, normalisation on/off, comb and cover-code "
        "variants, 0-3 simultaneously transmitting users on other shifts / "
        "cover codes; LS estimator with real and complex full-row-rank pilots, "
        "2-D and both 3-D forms.  Signature = (kind, size class, root class, "
        "shift, antennas, normalised, users); non-trivial = size > 24 or a "
        "multi-tap channel.  "
        "Cover codes are Walsh rows of length 2 and 4. "
        "The normalisation flag reaches the sequences as a literal, a numpy bool or 0/1. "
        "A quarter of the LS pilot matrices have nearly parallel rows (condition up to 1e4). "
        "A flat cover-code observation is used for a second estimate. ")
ASSUMPTIONS = ["phase of the reference ZC sequence reduced exactly with integer "
               "arithmetic modulo 2 Nzc; library phases are allowed 8 eps pi u N",
               "multi-user estimator scenarios only for lengths that are a "
               "multiple of the number of shifts (the orthogonality condition "
               "stated by the property)"]


def sieve(n):
    s = np.ones(n + 1, dtype=bool)
    s[:2] = False
    for i in range(2, int(n ** 0.5) + 1):
        if s[i]:
            s[i * i::i] = False
    return s


IS_PRIME = sieve(1400)


def largest_prime_leq(n):
    while not IS_PRIME[n]:
        n -= 1
    return n


def ref_zc(N, u):
    n = np.arange(N, dtype=object)
    k = [(u * int(i) * (int(i) + 1)) % (2 * N) for i in n]
    return np.exp(-1j * np.pi * np.array(k, dtype=float) / N)


def roots_for(N, rng, extra=2):
    r = {1, 2, N - 1, max(1, N // 2)}
    for _ in range(extra):
        r.add(int(rng.integers(1, N)))
    return sorted(x for x in r if 1 <= x < N)


# ----------------------------------------------------------------------------
def case_prime(ctx, rng, idx):
    """Exhaustive over requested sizes: block idx covers 8 sizes."""
    sizes = [s for s in range(25 + idx * 8, 25 + idx * 8 + 8) if s <= 1200]
    for size in sizes:
        want = largest_prime_leq(size)
        mag = ">=1013" if size >= 1013 else ("prime-size" if IS_PRIME[size] else "other")
        for u in roots_for(want, rng, 1)[:4]:
            try:
                r = RS.RootSequence(u, size)
            except Exception as e:
                ctx.ev("prime-selection", False, cls="raised:" + mag,
                       detail={"size": size, "u": u, "exc": repr(e)})
                continue
            ctx.ev("prime-selection", r.Nzc == want and r.size == size and r.index == u and
                   np.asarray(r.seq_array()).shape == (size,), cls=mag,
                   detail={"size": size, "u": u, "Nzc": r.Nzc, "want": want,
                           "reported_size": r.size})
            seq = np.asarray(r.seq_array())
            N = r.Nzc
            if seq.shape == (size,) and N <= size:
                base = seq[:N]
                ext_ok = np.array_equal(seq, base[np.arange(size) % N])
                ctx.ev("cyclic-extension", ext_ok, cls=mag,
                       detail={"size": size, "u": u, "Nzc": N})
                if N == want:
                    tol = 8 * EPS * math.pi * u * N + 4 * EPS
                    err = float(np.max(np.abs(base - ref_zc(N, u))))
                    ctx.within("zc-formula", err, tol, None, {"size": size, "u": u, "Nzc": N})
    ctx.sig("prime", idx)
    if idx % 40 == 0:
        ctx.sample("prime", {"sizes": sizes, "Nzc": [largest_prime_leq(s) for s in sizes]})


def case_tables(ctx, rng, idx):
    """Sizes 12 and 24: tabulated sequences, all 30 roots."""
    size = [12, 24][idx % 2]
    for u in range(30):
        okc, r = ctx.call("unit-amplitude", RS.RootSequence, u, size, detail={"size": size, "u": u})
        if not okc:
            continue
        seq = np.asarray(r.seq_array())
        ctx.ev("unit-amplitude", seq.shape == (size,) and
               bool(np.all(np.abs(np.abs(seq) - 1) <= 4 * EPS)), cls="table",
               detail={"size": size, "u": u})
        ctx.ev("prime-selection", r.size == size, cls="table-size", detail={"size": size})
    for bad in (13, 23, 1, 0):
        try:
            RS.RootSequence(1, bad)
            ctx.ev("prime-selection", False, cls="invalid-size-accepted", detail={"size": bad})
        except Exception:
            ctx.ev("prime-selection", True)
    ctx.sig("tables", size)


def cazac_checks(ctx, z, N, u, tag):
    tolrel = 64 * EPS * math.pi * u * N + 64 * EPS * math.log2(max(N, 2))
    ctx.within("unit-amplitude", float(np.max(np.abs(np.abs(z) - 1))), 4 * EPS, "zc", tag)
    Zf = np.fft.fft(z)
    R = np.fft.ifft(np.abs(Zf) ** 2)
    ctx.within("zero-autocorrelation", float(np.max(np.abs(R[1:]))) / N if N > 1 else 0.0,
               tolrel, None, tag)
    ctx.within("flat-spectrum", float(np.max(np.abs(np.abs(Zf) ** 2 / N - 1))), tolrel * N ** 0.5
               if False else tolrel * 4, None, tag)
    # direct definition of the autocorrelation at a few lags (independent of FFT)
    for lag in (1, 2, N // 2, N - 1):
        if 0 < lag < N:
            r = np.vdot(z, np.roll(z, lag))
            ctx.within("zero-autocorrelation", abs(r) / N, tolrel, "direct", {**tag, "lag": lag})


def case_cazac(ctx, rng, idx):
    if ctx.tier == "thorough":
        size = 36 + 12 * (idx % 98) if idx < 98 * 4 else int(rng.integers(25, 1201))
    else:
        size = int(rng.choice([36, 48, 60, 72, 96, 120, 144, 300, 600, 1200])) \
            if idx % 2 == 0 else int(rng.integers(25, 1201))
    N = largest_prime_leq(size)
    # an explicit Nzc is honoured as well (independent of the prime table)
    explicit = rng.random() < 0.5
    for u in roots_for(N, rng, 2):
        okc, r = ctx.call("unit-amplitude", RS.RootSequence, u, size, N if explicit else None,
                          detail={"size": size, "u": u})
        if not okc:
            continue
        seq = np.asarray(r.seq_array())
        if r.Nzc != N or seq.size < N:
            ctx.tally("cazac-skipped-wrong-Nzc")     # decided by the prime monitor
            continue
        tag = {"size": size, "u": u, "Nzc": N, "explicit_Nzc": explicit}
        # indexing the sequence object is indexing its (extended) array
        for ix in (0, -1, -int(rng.integers(1, seq.size + 1)), int(rng.integers(0, seq.size)),
                   slice(-5, None), slice(None, None, 7)):
            okc, got = ctx.call("cyclic-extension", r.__getitem__, ix, cls="indexing-raised",
                                detail={**tag, "index": repr(ix)})
            if okc:
                ctx.ev("cyclic-extension", np.array_equal(np.asarray(got), seq[ix]),
                       cls="indexing", detail={**tag, "index": repr(ix)})
        cazac_checks(ctx, seq[:N], N, u, tag)
        ctx.ev("cyclic-extension", np.array_equal(seq, seq[:N][np.arange(seq.size) % N]),
               cls="cazac", detail=tag)
    # calcBaseZC directly, and a short base with a long extension
    Nb = int(rng.choice([p for p in range(3, 80) if IS_PRIME[p]]))
    u = int(rng.integers(1, Nb))
    z = ZC.calcBaseZC(Nb, u)
    cazac_checks(ctx, np.asarray(z), Nb, u, {"Nzc": Nb, "u": u, "via": "calcBaseZC"})
    # the general form with an integer offset q is a Zadoff-Chu sequence as well
    q = int(rng.integers(1, 8))
    okc, zq = ctx.call("unit-amplitude", ZC.calcBaseZC, Nb, u, q, cls="calcBaseZC(q)-raised",
                       detail={"Nzc": Nb, "u": u, "q": q})
    if okc:
        zq = np.asarray(zq)
        cazac_checks(ctx, zq, Nb, u, {"Nzc": Nb, "u": u, "q": q, "via": "calcBaseZC(q)"})
        nn = np.arange(Nb)
        ph = [(u * int(n) * (int(n) + 1 + 2 * q)) % (2 * Nb) for n in nn]      # exact integers
        refq = np.exp(-1j * np.pi * np.array(ph, dtype=float) / Nb)
        ctx.within("zc-formula", float(np.max(np.abs(zq - refq))),
                   8 * EPS * math.pi * u * Nb * (1 + q) + 4 * EPS, "with-offset-q",
                   {"Nzc": Nb, "u": u, "q": q})
    L = int(rng.integers(Nb, 6 * Nb))
    okc, ext = ctx.call("cyclic-extension", ZC.get_extended_ZF, z, L, detail={"Nzc": Nb, "L": L})
    if okc:
        ctx.ev("cyclic-extension", np.asarray(ext).shape == (L,) and
               np.array_equal(ext, z[np.arange(L) % Nb]), cls="get_extended_ZF",
               detail={"Nzc": Nb, "L": L, "got_len": np.asarray(ext).size})
        okc = False
        if L > 24:
            okc, rr = ctx.call("cyclic-extension", RS.RootSequence, u, L, Nb,
                               detail={"Nzc": Nb, "L": L})
        if okc:
            ctx.ev("cyclic-extension", np.array_equal(np.asarray(rr.seq_array()),
                                                      z[np.arange(L) % Nb]),
                   cls="RootSequence(size,Nzc)", detail={"Nzc": Nb, "L": L})
    ctx.sig("cazac", size // 100, explicit)
    ctx.sample("cazac", {"size": size, "Nzc": N})


WALSH = {2: [np.array([1, 1]), np.array([1, -1])],
         4: [np.array(r) for r in ([1, 1, 1, 1], [1, -1, 1, -1], [1, 1, -1, -1], [1, -1, -1, 1])]}


def make_ue(kind, root, n_cs, normalize, cover=None):
    if kind == "srs":
        return SRS.SrsUeSequence(root, n_cs, normalize=normalize)
    return DMRS.DmrsUeSequence(root, n_cs, cover_code=cover, normalize=normalize)


def case_shift_orth(ctx, rng, idx):
    kind = ["srs", "dmrs"][idx % 2]
    nshift = 8 if kind == "srs" else 12
    size = nshift * int(rng.integers(2, 50)) * (3 if kind == "srs" else 1)
    if size < 12:
        size = 24
    if size not in (12, 24) and size < 25:
        size = 48
    u = int(rng.integers(1, 30)) if size in (12, 24) else \
        int(rng.integers(1, largest_prime_leq(size)))
    normalize = bool(rng.integers(0, 2))
    if size > 36 and rng.random() < 0.4:
        # earlier in the same process: users of a root with the same index and
        # size but another (explicit) base length; they must not leak into the
        # users created below
        smaller = largest_prime_leq(largest_prime_leq(size) - 1)
        if u < smaller:
            okc, other = ctx.call("shift-orthogonality", RS.RootSequence, u, size, smaller,
                                  detail={"size": size, "u": u, "Nzc": smaller})
            if okc:
                for n_cs in range(nshift):
                    ctx.call("shift-orthogonality", make_ue, kind, other, n_cs, normalize,
                             detail={"kind": kind, "n_cs": n_cs, "size": size, "Nzc": smaller})
    okc, root = ctx.call("shift-orthogonality", RS.RootSequence, u, size,
                         detail={"size": size, "u": u})
    if not okc:
        return
    seqs = []
    for n_cs in range(nshift):
        okc, ue = ctx.call("shift-orthogonality", make_ue, kind, root, n_cs, normalize,
                           detail={"kind": kind, "n_cs": n_cs, "size": size})
        if not okc:
            return
        seqs.append(np.asarray(ue.seq_array()))
    S = np.array(seqs)
    G = S @ herm(S)
    want_diag = 1.0 if normalize else float(size)
    off = G - np.diag(np.diagonal(G))
    tag = {"kind": kind, "size": size, "u": u, "normalize": normalize}
    ctx.within("shift-orthogonality", float(np.max(np.abs(off))) / want_diag,
               64 * EPS * size, "different-shifts", tag)
    ctx.within("shift-orthogonality",
               float(np.max(np.abs(np.diagonal(G) - want_diag))) / want_diag, 64 * EPS * size,
               "norm", tag)
    # the user sequence is the root times exp(j 2 pi n_cs n / shifts)
    base = np.asarray(root.seq_array())
    n_cs = int(rng.integers(0, nshift))
    want = base * np.exp(2j * np.pi * ((n_cs * np.arange(size)) % nshift) / nshift)
    if normalize:
        want = want / math.sqrt(size)
    ctx.within("shift-orthogonality", float(np.max(np.abs(S[n_cs] - want))),
               16 * EPS * 2 * math.pi * size * (1 if not normalize else 1 / math.sqrt(size)),
               "shift-definition", {**tag, "n_cs": n_cs})
    ctx.sig("orth", kind, size % 7, normalize)


def true_response(h, npoints):
    """DFT of the taps at npoints, defining sum (independent of np.fft)."""
    L = h.shape[-1]
    k = np.arange(npoints)
    E = np.exp(-2j * np.pi * np.outer(np.arange(L), k) / npoints)
    return h @ E


def case_estimator(ctx, rng, idx):
    variant = ["srs-comb", "srs-comb", "dmrs-plain", "dmrs-occ"][idx % 4]
    kind = "srs" if variant.startswith("srs") else "dmrs"
    nshift = 8 if kind == "srs" else 12
    multi = rng.random() < 0.6
    if multi or rng.random() < 0.5:
        size = nshift * int(rng.integers(2, 26)) * (3 if kind == "srs" else 1)
    else:
        size = int(rng.integers(25, 400))
    if size < 25:
        size = 24 if size >= 24 else 48
    Nzc = largest_prime_leq(size) if size > 24 else None
    u = int(rng.integers(1, 30)) if size in (12, 24) else int(rng.integers(1, Nzc))
    okc, root = ctx.call("estimator-exact", RS.RootSequence, u, size, detail={"size": size})
    if not okc:
        return
    if size > 24 and root.Nzc != Nzc:
        ctx.tally("estimator-on-wrong-Nzc")      # still a unit-amplitude sequence
    normalize = bool(rng.integers(0, 2))
    # the flag as the caller happens to hold it (a literal, the result of a
    # numpy comparison, 0/1): whatever the sequence does with it, the estimator
    # built on that sequence must stay exact
    normalize = [normalize, normalize, np.bool_(normalize), int(normalize)][int(rng.integers(0, 4))]
    Nr = int(rng.integers(1, 5))
    n_cs0 = int(rng.integers(0, nshift))
    window = size // nshift
    L = int(rng.integers(1, max(2, min(window, 12) + 1)))       # taps of user 0
    keep = int(rng.integers(L - 1, max(L, window)))             # keeps keep+1 >= L taps
    if not multi:
        keep = int(rng.integers(L - 1, size))                   # any kept length >= L-1
    mult = 2 if variant == "srs-comb" else 1
    cover0 = None
    if variant == "dmrs-occ":
        # Walsh rows of length 2 (LTE) or 4
        walsh = WALSH[2 if rng.random() < 0.6 else 4]
        cover0 = walsh[int(rng.integers(0, len(walsh)))]
    ue0 = make_ue(kind, root, n_cs0, normalize, cover0)
    seq0 = np.asarray(ue0.seq_array())
    h0 = num.randn_c(rng, Nr, L) * 10.0 ** rng.uniform(-2, 1)
    H0 = true_response(h0, mult * size)                # Nr x (mult*size)
    obs_idx = np.arange(0, mult * size, mult)          # comb: every other subcarrier
    users = [{"n_cs": n_cs0, "L": L, "cover": None if cover0 is None else cover0.tolist()}]
    if variant == "dmrs-occ":
        Y = seq0[None, :, :] * H0[:, None, obs_idx]                    # Nr x Nc x size
    else:
        Y = seq0[None, :] * H0[:, obs_idx]                             # Nr x size
    if multi and size % nshift == 0:
        others = [s for s in range(nshift) if s != n_cs0]
        rng.shuffle(others)
        for n_cs in others[:int(rng.integers(1, 4))]:
            # the other user's taps must stay inside its own shift window,
            # away from the taps kept for user 0
            off = ((n_cs0 - n_cs) * window) % size
            lo = max(off, keep + 1)
            hi = off + window if off > 0 else size
            Lj = int(rng.integers(1, max(2, min(window, 8))))
            if lo + Lj > min(hi, size) or off == 0:
                continue
            hj = num.randn_c(rng, Nr, Lj) * 10.0 ** rng.uniform(-1, 1)
            # place the taps so that, seen through user 0's de-rotation, they
            # fall in [lo, hi): delay d in the true channel maps to d + off
            d0 = int(rng.integers(lo - off, min(hi, size) - off - Lj + 1)) \
                if min(hi, size) - off - Lj + 1 > lo - off else None
            if d0 is None or d0 < 0:
                continue
            hfull = np.zeros((Nr, d0 + Lj), dtype=complex)
            hfull[:, d0:] = hj
            if mult * size < hfull.shape[1]:
                continue
            Hj = true_response(hfull, mult * size)
            cj = None
            if variant == "dmrs-occ":
                cj = walsh[int(rng.integers(0, len(walsh)))]
            uej = make_ue(kind, root, n_cs, normalize, cj)
            sj = np.asarray(uej.seq_array())
            if variant == "dmrs-occ":
                Y = Y + sj[None, :, :] * Hj[:, None, obs_idx]
            else:
                Y = Y + sj[None, :] * Hj[:, obs_idx]
            users.append({"n_cs": n_cs, "L": Lj, "delay": d0,
                          "cover": None if cj is None else cj.tolist()})
        if variant == "dmrs-occ" and rng.random() < 0.5:
            # a user on the SAME shift with the other cover code is removed by the OCC
            cj = [w for w in walsh if not np.array_equal(w, cover0)][
                int(rng.integers(0, len(walsh) - 1))]
            hj = num.randn_c(rng, Nr, L) * 10.0 ** rng.uniform(-1, 1)
            Hj = true_response(hj, size)
            uej = make_ue(kind, root, n_cs0, normalize, cj)
            Y = Y + np.asarray(uej.seq_array())[None, :, :] * Hj[:, None, :]
            users.append({"n_cs": n_cs0, "L": L, "cover": cj.tolist(), "same_shift": True})
    if Nr == 1 and rng.random() < 0.5:
        Yin = Y[0]
        want = H0[0]
    else:
        Yin, want = Y, H0
    tag = {"variant": variant, "size": size, "u": u, "Nr": Nr,
           "normalize": "%s(%s)" % (type(normalize).__name__, normalize),
           "taps": L, "num_taps_to_keep": keep, "users": users, "input_ndim": Yin.ndim}
    if variant == "dmrs-occ":
        est = CE.CazacBasedWithOCCChannelEstimator(ue0)
        flat = rng.random() < 0.3
        if flat:
            Yc = np.ascontiguousarray(Yin).reshape(Yin.shape[:-2] + (-1,))
            Yc0 = Yc.copy()
            okc, got = ctx.call("estimator-exact", est.estimate_channel_freq_domain, Yc, keep,
                                False, detail=tag)
            if okc:
                # the flat observation is the caller's: the next user is estimated
                # from the very same array
                ctx.ev("args-not-mutated", np.array_equal(np.ravel(Yc), np.ravel(Yc0)),
                       cls="estimate_channel_freq_domain:flat", detail=tag)
                okc2, again = ctx.call("estimator-exact", est.estimate_channel_freq_domain, Yc,
                                       keep, False, cls="flat-observation-used-again:raised",
                                       detail={**tag, "shape_now": np.shape(Yc),
                                               "shape_given": Yc0.shape})
                if okc2:
                    ctx.ev("estimator-exact", np.shape(again) == np.shape(got) and
                           np.array_equal(np.asarray(again), np.asarray(got)),
                           cls="flat-observation-used-again:different", detail=tag)
        else:
            okc, got = ctx.call("estimator-exact", est.estimate_channel_freq_domain,
                                np.array(Yin), keep, detail=tag)
    else:
        est = CE.CazacBasedChannelEstimator(ue0, size_multiplier=mult) if mult != 2 or \
            rng.random() < 0.5 else CE.CazacBasedChannelEstimator(ue0)
        okc, got = ctx.call("estimator-exact", est.estimate_channel_freq_domain,
                            np.array(Yin), keep, detail=tag)
    if not okc:
        return
    ctx.hold("estimator-exact", "estimate_channel_freq_domain", got)
    got = np.asarray(got)
    ctx.ev("estimator-exact", got.shape == want.shape, cls=variant + ":shape",
           detail={**tag, "got": got.shape, "want": want.shape})
    if got.shape != want.shape:
        return
    scale = fro(want) + sum(1.0 for _ in users) * 1e-300
    amp = max(1.0, max((10.0 for _ in users[1:]), default=1.0))
    tol = 256 * EPS * size * amp * 10 * scale + \
        (64 * EPS * math.pi * u * size * scale * 8 if size > 24 else 0)
    ctx.within("estimator-exact", fro(got - want), tol,
               variant + (":multi-user" if len(users) > 1 else ":single-user"), tag)
    # the same estimator object and the same observation array are used again
    # (other number of kept taps): nothing may have been consumed or cached
    if not (variant == "dmrs-occ" and 'flat' in dir() and flat):
        Yobs = np.array(Yin)
        Ykeep = Yobs.copy()
        lo2 = L - 1
        hi2 = max(L, window) if (multi and len(users) > 1) else size
        for rep in range(2):
            keep2 = int(rng.integers(lo2, hi2))
            okc, got2 = ctx.call("estimator-exact", est.estimate_channel_freq_domain, Yobs,
                                 keep2, cls="second-call", detail={**tag, "keep2": keep2})
            if not okc:
                break
            ctx.within("estimator-exact", fro(np.asarray(got2) - want), tol,
                       variant + ":reused-estimator-and-observation",
                       {**tag, "num_taps_to_keep_second_call": keep2, "call": rep + 2})
            ctx.ev("args-not-mutated", np.array_equal(Yobs, Ykeep),
                   cls="estimate_channel_freq_domain", detail=tag)
        # ... and for ANOTHER observation: a different channel (other number of
        # taps, other number of kept taps) seen by the same estimator object
        L3 = int(rng.integers(1, max(2, min(window, 12) + 1)))
        h3 = num.randn_c(rng, Nr, L3) * 10.0 ** rng.uniform(-2, 1)
        H3 = true_response(h3, mult * size)
        if variant == "dmrs-occ":
            Y3 = seq0[None, :, :] * H3[:, None, obs_idx]
        else:
            Y3 = seq0[None, :] * H3[:, obs_idx]
        keep3 = int(rng.integers(L3 - 1, size))
        okc, got3 = ctx.call("estimator-exact", est.estimate_channel_freq_domain, Y3, keep3,
                             cls="third-call", detail={**tag, "keep3": keep3, "taps3": L3})
        if okc:
            got3 = np.asarray(got3)
            ctx.within("estimator-exact", fro(got3 - H3) if got3.shape == H3.shape else 1e300,
                       256 * EPS * size * 10 * fro(H3) +
                       (64 * EPS * math.pi * u * size * fro(H3) * 8 if size > 24 else 0),
                       variant + ":reused-estimator-new-channel",
                       {**tag, "taps_second_channel": L3, "num_taps_to_keep": keep3})
    ctx.sig("est", variant, size % 5, Nr, bool(normalize), type(normalize).__name__, len(users),
            Yin.ndim)
    ctx.tally("estimator-users=%d" % len(users))
    ctx.sample(variant, tag)


def case_ls(ctx, rng, idx):
    Nt = int(rng.integers(1, 5))
    Nr = int(rng.integers(1, 5))
    npil = int(rng.integers(Nt, 4 * Nt + 3))
    real_p = bool(idx % 2)
    form = ["2d", "3d-shared", "3d-per-realisation"][(idx // 2) % 3]
    nreal = int(rng.integers(1, 5))

    def pilots():
        # full-rank pilot matrices; a quarter of them with nearly parallel rows
        # (condition up to 1e4 -- the exactness tolerance grows with its square)
        S, _ = num.controlled_matrix(rng, Nt, npil, 1e4 if rng.random() < 0.25 else 1e2,
                                     real=real_p)
        if real_p and rng.random() < 0.5:
            Sq = np.sign(rng.standard_normal((Nt, npil)))
            if np.linalg.matrix_rank(Sq) == Nt and np.linalg.cond(Sq) < 1e3:
                S = Sq
        return S
    tag = {"Nt": Nt, "Nr": Nr, "pilots": npil, "real_pilots": real_p, "form": form}
    if form == "2d":
        S = pilots()
        H = num.randn_c(rng, Nr, Nt)
        Y = H @ S
    elif form == "3d-shared":
        S = pilots()
        H = num.randn_c(rng, nreal, Nr, Nt)
        Y = H @ S
    else:
        S = np.array([pilots() for _ in range(nreal)])
        H = num.randn_c(rng, nreal, Nr, Nt)
        Y = np.einsum("irt,itp->irp", H, S)
    Sb, Yb = S.copy(), Y.copy()
    okc, got = ctx.call("ls-exact", EST.compute_ls_estimation, Y, S, detail=tag)
    if not okc:
        return
    got = np.asarray(got)
    ctx.ev("args-not-mutated", np.array_equal(Sb, S) and np.array_equal(Yb, Y),
           cls="compute_ls_estimation", detail=tag)
    kap = max(np.linalg.cond(s) for s in (S if S.ndim == 3 else [S]))
    ctx.ev("ls-exact", got.shape == H.shape, cls="shape", detail={**tag, "got": got.shape})
    if got.shape == H.shape:
        ctx.within("ls-exact", fro(got - H), 256 * EPS * npil * kap ** 2 * fro(H),
                   form + (":real-pilots" if real_p else ":complex-pilots"), tag)
    ctx.sig("ls", Nt, Nr, real_p, form)
    ctx.sample("ls", tag)


def classify(w):
    return None


GENS = {
    "prime": Gen(case_prime, 147, 147, exhaustive=True),
    "tables": Gen(case_tables, 2, 2, exhaustive=True),
    "cazac": Gen(case_cazac, 500, 98 * 4 + 30000),
    "shift-orth": Gen(case_shift_orth, 400, 120000),
    "estimator": Gen(case_estimator, 4000, 1200000),
    "ls": Gen(case_ls, 1500, 400000),
}
MIN_EVALS = {"prime-selection": 4000, "cyclic-extension": 4000, "zc-formula": 3000,
             "unit-amplitude": 500, "zero-autocorrelation": 1000, "flat-spectrum": 300,
             "shift-orthogonality": 300, "estimator-exact": 1000, "ls-exact": 500}
