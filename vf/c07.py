"""C07 -- a simulation stopped at any point resumes without losing or
double-counting work (fault enumeration with forked children)."""
from __future__ import annotations

import builtins
import itertools
import json
import os
import shutil
import signal
import sys
import time
import traceback

import numpy as np

from . import core
from .core import Gen

from pyphysim.simulations.runner import SimulationRunner, SkipThisOne
from pyphysim.simulations.results import Result, SimulationResults
import pyphysim.simulations.results as RESMOD

ID = "C07"
CASE_TIMEOUT = 900        # one big case = ~80 forked simulations, ~60 s idle, several x under load
LEVEL = "fault_enumeration"
RULE = ("for a configuration (grid of 1-4 variations, rep_max below / at / "
        "above the 500-repetition save period or small, pickle or json final "
        "results, delete-partial-results on/off, absolute or relative result "
        "names) a fault-free dry run discovers every crash point: before/after "
        "every _run_simulation call, every write issued while a results file "
        "is being saved torn after {0, 1, 1/3, 1/2, len-1} bytes, and "
        "before/after every os.replace.  Each enumerated crash point is "
        "executed in a forked child that os._exit()s there; the parent reads "
        "what is durable, restarts a second child without faults and decides "
        "the recorded history: restart completes, every variation has exactly "
        "rep_max distinct repetition ids = durable ids + newly executed ids "
        "(ids of the first and second run come from disjoint ranges).  "
        "Work that the log shows as durably saved must still be held by a file "
        "at the crash (durable-work-kept).  Some configurations stop early "
        "through _keep_going (the combination is complete below rep_max) and "
        "some raise SkipThisOne in 25-45 % of the attempts.  "
        "Same-object histories raise KeyboardInterrupt / RuntimeError / "
        "MemoryError inside repetition k and call simulate() again on the same "
        "runner.  Parameter-guard histories restart with a changed fixed value / "
        "unpacked list / extra parameter / larger rep_max.  Small "
        "configurations are enumerated completely, large ones strided.  "
        "Signature = (crash-point kind, rep_max class, format, position "
        "class); non-trivial = the crash happened after at least one "
        "repetition or during a save."
        "The runner under test implements the per-combination start hook and logs every repetition executed without it. "
        "Progress output off / in files / on the (redirected) screen. "
        "A fifth of the configurations run one job per combination (simulate(index)); a third of the guard cases also change a parameter of the interrupted runner itself (item syntax or add) before it is started again. "
        "The runner's iteration also returns a MISC result; in a fifth of the configurations another simulation (other results name, same directory) runs to completion and cleans up between the crash and the restart. ")
ASSUMPTIONS = ["a crash is os._exit at the failpoint (no buffered data is "
               "flushed); torn writes keep the first b bytes of the file",
               "the restarted run uses the same parameters and a fresh process"]

UID_RESTART = 10 ** 6
UID_THIRD = 2 * 10 ** 6


class Conf:
    pass


class CrashRunner(SimulationRunner):
    def __init__(self, conf, uid_base, log_fd, faults):
        super().__init__(read_command_line_args=False)
        if getattr(conf, "progress", None) == "file":
            self.progress_output_type = 'file'      # default text bar, written to files
        elif getattr(conf, "progress", None) == "screen":
            pass                                    # the library default: text bar on stdout
        else:
            self.update_progress_function_style = None
        self.conf = conf
        self.rep_max = conf.rep_max
        for k, v in conf.fixed.items():
            self.params.add(k, v)
        for k, v in conf.unpacked.items():
            self.params.add(k, v)
            self.params.set_unpack_parameter(k)
        self.delete_partial_results_bool = conf.delete_partial
        self.uid = uid_base
        self.ncalls = 0
        self.log_fd = log_fd
        self.faults = faults

    def log(self, *a):
        os.write(self.log_fd, (" ".join(str(x) for x in a) + "\n").encode())

    def _keep_going(self, current_params, current_sim_results, current_rep):
        stop = getattr(self.conf, "stop_at", None)
        return True if stop is None else current_rep < stop

    def _on_simulate_current_params_start(self, current_params):
        # per-combination preparation (what a real simulator does here: build
        # the modulator / channel for this combination)
        self._prepared = max(current_params.unpack_index, 0)

    def _run_simulation(self, current_params):
        if getattr(self, "_prepared", None) != max(current_params.unpack_index, 0):
            self.log("unprepared", current_params.unpack_index,
                     getattr(self, "_prepared", None))
        self.ncalls += 1
        g = self.faults.get("raise")
        if g and g[0] == self.ncalls and not self.faults.get("raised"):
            self.faults["raised"] = True
            self.ncalls -= 1
            self.log("interrupt rep", self.ncalls + 1, g[1])
            raise {"KeyboardInterrupt": KeyboardInterrupt, "RuntimeError": RuntimeError,
                   "MemoryError": MemoryError}[g[1]]("injected")
        f = self.faults.get("rep")
        if f and f[0] == self.ncalls and f[1] == "before":
            self.log("crash rep", self.ncalls, "before")
            os._exit(137)
        p = getattr(self.conf, "skip_p", 0.0)
        if p:
            key = (self.conf.rep_max, self.uid // UID_RESTART, max(current_params.unpack_index, 0),
                   self.ncalls)
            if (core.sig_hash(key) % 1000) / 1000.0 < p:
                self.log("skip", current_params.unpack_index, self.ncalls)
                raise SkipThisOne("injected skip")
        uid = self.uid
        self.uid += 1
        self.log("call", current_params.unpack_index, uid)
        sr = SimulationResults()
        r = Result("ids", Result.SUMTYPE, accumulate_values=True)
        r.update(uid)
        sr.add_result(r)
        sr.add_new_result("cnt", Result.SUMTYPE, 1)
        # (a "last observation" result too: its update count does not grow by merging)
        sr.add_result(Result.create("last", Result.MISCTYPE, uid))
        if f and f[0] == self.ncalls and f[1] == "after":
            self.log("crash rep", self.ncalls, "after")
            os._exit(137)
        return sr


class TearingFile:
    """File proxy: counts the bytes written to the n-th results file and
    kills the process when the budget of the failpoint is reached."""

    def __init__(self, fobj, state, index, path):
        self.f, self.state, self.index, self.path = fobj, state, index, path
        self.written = 0

    def write(self, data):
        st = self.state
        raw = data.encode() if isinstance(data, str) else bytes(data)
        fp = st["faults"].get("write")
        if fp and fp[0] == self.index:
            budget = fp[1] - self.written
            if len(raw) >= budget:
                part = raw[:max(budget, 0)]
                if part:
                    self.f.write(part.decode(errors="ignore") if isinstance(data, str) else part)
                self.f.flush()
                os.write(st["log_fd"], ("crash write %d at %d of %s\n" % (
                    self.index, self.written + len(part), self.path)).encode())
                if st["faults"].get("mode") == "raise" and not st.get("raised"):
                    # the interruption arrives as an exception (Ctrl-C): handlers and
                    # finally blocks of the library run before the process ends
                    st["raised"] = True
                    raise KeyboardInterrupt("injected while writing a results file")
                os._exit(137)
        self.written += len(raw)
        st["sizes"][self.index] = self.written
        return self.f.write(data)

    def __enter__(self):
        return self

    def __exit__(self, *a):
        os.write(self.state["log_fd"], ("saved %d %d %s\n" % (
            self.index, self.written, self.path)).encode())
        return self.f.__exit__(*a)

    def __getattr__(self, name):
        return getattr(self.f, name)


def install_failpoints(state):
    real_open = builtins.open

    def open_wrapper(path, mode="r", *a, **kw):
        f = real_open(path, mode, *a, **kw)
        if "w" in mode:
            state["nopen"] += 1
            os.write(state["log_fd"], ("open %d %s\n" % (state["nopen"], path)).encode())
            return TearingFile(f, state, state["nopen"], str(path))
        return f
    RESMOD.open = open_wrapper            # only the results module's saves

    real_replace = os.replace

    def replace_wrapper(src, dst, *a, **kw):
        state["nreplace"] += 1
        n = state["nreplace"]
        fp = state["faults"].get("replace")
        if fp and fp[0] == n and fp[1] == "before":
            os.write(state["log_fd"], ("crash replace %d before\n" % n).encode())
            os._exit(137)
        r = real_replace(src, dst, *a, **kw)
        os.write(state["log_fd"], ("replace %d %s\n" % (n, dst)).encode())
        if "_unpack_" in os.path.basename(str(dst)):
            # what has just become durable for that combination
            try:
                sr = SimulationResults.load_from_file(str(dst))
                os.write(state["log_fd"], ("durable %d %d\n" % (
                    max(sr.params.unpack_index, 0),
                    len(sr["ids"][-1].get_result_accumulated_values()))).encode())
            except Exception as e:          # noqa
                os.write(state["log_fd"], ("durable-unreadable %s\n" % dst).encode())
        if fp and fp[0] == n and fp[1] == "after":
            os.write(state["log_fd"], ("crash replace %d after\n" % n).encode())
            os._exit(137)
        return r
    os.replace = replace_wrapper
    os.rename = replace_wrapper


def child_main(conf, wd, faults, uid_base, tag, override=None):
    """Runs in the forked child.  Never returns."""
    code = 3
    try:
        os.chdir(wd)
        log_fd = os.open(os.path.join(wd, "log_%s.txt" % tag),
                         os.O_WRONLY | os.O_CREAT | os.O_APPEND)
        # whatever the simulation prints (progress bars on "screen") stays here
        out_fd = os.open(os.path.join(wd, "stdout_%s.txt" % tag),
                         os.O_WRONLY | os.O_CREAT | os.O_APPEND)
        try:
            sys.stdout.flush()
        except Exception:
            pass
        os.dup2(out_fd, 1)
        c = conf
        if override:
            c = Conf()
            c.__dict__.update(conf.__dict__)
            c.__dict__.update(override)
        state = {"faults": faults, "nopen": 0, "nreplace": 0, "log_fd": log_fd, "sizes": {}}
        install_failpoints(state)
        if getattr(c, "clock_step", 0):
            # virtual time: every time() call of the runner advances the clock,
            # so the "save every 5 minutes" rule fires in the middle of small
            # variations (deterministically, no wall clock involved)
            import pyphysim.simulations.runner as RUNMOD
            clock = {"t": 1.0e9}

            def fake_time():
                clock["t"] += c.clock_step
                return clock["t"]
            RUNMOD.time = fake_time
        r = CrashRunner(c, uid_base, log_fd, faults)
        r.set_results_filename(c.results_name)
        if c.partial_folder is not None:
            r.partial_results_folder = c.partial_folder
        interrupted = None
        if getattr(c, "jobs", False):
            # one job per parameter combination (the cluster way): simulate(i) for
            # each index; the product of a job is that combination's results file
            nv = nvariations(c)
            rr = []
            for v in range(nv):
                try:
                    r.simulate(v)
                except KeyboardInterrupt:
                    if state.get("raised"):
                        os.write(log_fd, b"exit after KeyboardInterrupt in a write\n")
                        os._exit(137)
                    raise
                rr.append(int(np.atleast_1d(r.runned_reps)[-1]))
            files = {}
            for dp, _, fs in os.walk(wd):
                for f in fs:
                    if "_unpack_" in f and f.endswith(".pickle"):
                        sr = SimulationResults.load_from_file(os.path.join(dp, f))
                        files[max(sr.params.unpack_index, 0)] = sr
            out = {"interrupted": None, "runned_reps": rr,
                   "ids": [[int(i) for i in files[v]["ids"][-1].get_result_accumulated_values()]
                           if v in files else [] for v in range(nv)],
                   "cnt": [int(files[v]["cnt"][-1].get_result()) if v in files else -1
                           for v in range(nv)],
                   "ncalls": r.ncalls, "nopen": state["nopen"], "nreplace": state["nreplace"],
                   "sizes": {str(k): v for k, v in state["sizes"].items()}}
            with builtins.open(os.path.join(wd, "summary_%s.json" % tag), "w") as f:
                json.dump(out, f)
            os._exit(0)
        try:
            r.simulate()
        except KeyboardInterrupt:
            if state.get("raised"):
                os.write(log_fd, b"exit after KeyboardInterrupt in a write\n")
                os._exit(137)
            if not faults.get("raised"):
                raise
            e = KeyboardInterrupt()
            interrupted = {"exc": "KeyboardInterrupt",
                           "durable": {str(k): v for k, v in durable_state(wd, 0).items()}}
            r.simulate()
        except (RuntimeError, MemoryError) as e:
            if not faults.get("raised"):
                raise
            # the user is still in the same session: look at what is on disk,
            # then call simulate() again on the SAME runner object
            interrupted = {"exc": type(e).__name__,
                           "durable": {str(k): v for k, v in durable_state(wd, 0).items()}}
            cp = faults.get("change_param")
            if cp:
                # the user also changes a parameter of the SAME runner before
                # starting again (item syntax or add): what is on disk belongs to
                # the old value and must be refused
                if cp[2] == "item":
                    r.params[cp[0]] = cp[1]
                else:
                    r.params.add(cp[0], cp[1])
                os.write(log_fd, ("changed %s\n" % cp[0]).encode())
            r.simulate()
        res = r.results
        out = {"interrupted": interrupted, "runned_reps": [int(x) for x in np.atleast_1d(r.runned_reps)],
               "ids": [[int(i) for i in x.get_result_accumulated_values()] for x in res["ids"]],
               "cnt": [int(x.get_result()) for x in res["cnt"]],
               "ncalls": r.ncalls, "nopen": state["nopen"], "nreplace": state["nreplace"],
               "sizes": {str(k): v for k, v in state["sizes"].items()}}
        with builtins.open(os.path.join(wd, "summary_%s.json" % tag), "w") as f:
            json.dump(out, f)
        code = 0
    except BaseException:
        try:
            with builtins.open(os.path.join(wd, "err_%s.txt" % tag), "w") as f:
                f.write(traceback.format_exc())
        except Exception:
            pass
        code = 3
    finally:
        os._exit(code)


def run_child(conf, wd, faults, uid_base, tag, override=None, timeout=120):
    sys.stdout.flush()
    pid = os.fork()
    if pid == 0:
        child_main(conf, wd, faults, uid_base, tag, override)
    t0 = time.time()
    while True:
        p, status = os.waitpid(pid, os.WNOHANG)
        if p:
            break
        if time.time() - t0 > timeout:
            os.kill(pid, signal.SIGKILL)
            os.waitpid(pid, 0)
            return "timeout"
        time.sleep(0.002)
    if os.WIFEXITED(status):
        return os.WEXITSTATUS(status)
    return "signal%d" % os.WTERMSIG(status)


def read_json(path):
    try:
        with open(path) as f:
            return json.load(f)
    except Exception:
        return None


def read_text(path):
    try:
        with open(path) as f:
            return f.read()
    except Exception:
        return ""


def durable_state(wd, nvar):
    """What the partial files on disk hold: {unpack_index: (current_rep, ids)}
    or 'unreadable'."""
    out = {}
    for dp, _, fs in os.walk(wd):
        for f in fs:
            if "_unpack_" in f and f.endswith(".pickle"):
                path = os.path.join(dp, f)
                try:
                    sr = SimulationResults.load_from_file(path)
                    idx = sr.params.unpack_index
                    ids = [int(i) for i in sr["ids"][-1].get_result_accumulated_values()]
                    out[max(idx, 0)] = (int(sr.current_rep), ids)
                except Exception as e:
                    out["unreadable:" + f] = repr(e)
    return out


def calls_in_log(wd, tag):
    ids = {}
    for ln in read_text(os.path.join(wd, "log_%s.txt" % tag)).splitlines():
        p = ln.split()
        if p and p[0] == "call":
            ids.setdefault(max(int(p[1]), 0), []).append(int(p[2]))
    return ids


def unprepared_in_log(wd, tag):
    return [ln for ln in read_text(os.path.join(wd, "log_%s.txt" % tag)).splitlines()
            if ln.startswith("unprepared")]


def gen_conf(rng, big):
    c = Conf()
    nvar_a = int(rng.integers(1, 4))
    c.unpacked = {}
    if rng.random() < 0.85:
        c.unpacked["snr"] = np.arange(nvar_a) * 5.0
        if rng.random() < 0.3 and nvar_a <= 2:
            c.unpacked["mode"] = [1, 2]
    c.fixed = {"bias": 1.5, "label": "x"}
    if big:
        c.rep_max = int(rng.choice([499, 500, 501, 999, 1000, 1001, 1200]))
        if "mode" in c.unpacked:
            del c.unpacked["mode"]
    else:
        c.rep_max = int(rng.choice([1, 2, 3, 5]))
    c.delete_partial = bool(rng.integers(0, 2))
    style = int(rng.integers(0, 4))
    c.results_name = ["res", "res.json", "out_{bias}", "deep/res"][style]
    if style == 3:
        c.results_name = "res"
    c.partial_folder = [None, "partial_results", "pr2"][int(rng.integers(0, 3))]
    # virtual seconds per time() call of the runner (0 = real clock)
    c.clock_step = 0 if big else int(rng.choice([0, 0, 45, 120]))
    if c.clock_step and rng.random() < 0.5:
        c.rep_max = int(rng.choice([5, 8, 12]))
    # an early-stop rule (the combination is complete after stop_at repetitions)
    c.stop_at = None
    if not big and rng.random() < 0.3:
        c.stop_at = int(rng.integers(1, c.rep_max + 2))
    # progress output: switched off, or the default text bar written to files
    c.progress = None
    if not big and rng.random() < 0.35:
        c.progress = "file" if rng.random() < 0.5 else "screen"

    # some repetitions raise SkipThisOne (never counted, never saved)
    c.skip_p = float(rng.choice([0.0, 0.0, 0.25, 0.45])) if not big else 0.0
    # one job per combination, simulate(index), instead of one simulate() for all
    c.jobs = rng.random() < 0.2
    # another simulation shares the directory between the crash and the restart
    c.other_sim = (not c.jobs) and rng.random() < 0.2
    return c


def conf_tag(c):
    return {"unpacked": {k: np.asarray(v).tolist() for k, v in c.unpacked.items()},
            "rep_max": c.rep_max, "delete_partial": c.delete_partial,
            "results_name": c.results_name, "partial_folder": c.partial_folder,
            "virtual_clock_step": getattr(c, "clock_step", 0),
            "stop_at": getattr(c, "stop_at", None), "skip_probability": getattr(c, "skip_p", 0.0),
            "progress_output": getattr(c, "progress", None),
            "one_job_per_combination": getattr(c, "jobs", False),
            "another_simulation_in_between": getattr(c, "other_sim", False)}


def want_reps(c):
    stop = getattr(c, "stop_at", None)
    return c.rep_max if stop is None else max(1, min(c.rep_max, stop))


def durable_ever(wd, tag):
    """Largest number of repetitions that the log of a run shows as durably
    saved, per combination."""
    out = {}
    for ln in read_text(os.path.join(wd, "log_%s.txt" % tag)).splitlines():
        p = ln.split()
        if p and p[0] == "durable":
            out[int(p[1])] = max(out.get(int(p[1]), 0), int(p[2]))
    return out


def final_file_ids(wd):
    for dp, _, fs in os.walk(wd):
        for f in fs:
            if "_unpack_" not in f and (f.endswith(".pickle") or f.endswith(".json")) and \
                    not f.startswith("summary_"):
                try:
                    sr = SimulationResults.load_from_file(os.path.join(dp, f))
                    return [[int(i) for i in x.get_result_accumulated_values()]
                            for x in sr["ids"]]
                except Exception:
                    return None
    return None


def nvariations(c):
    n = 1
    for v in c.unpacked.values():
        n *= len(v)
    return n


def fresh_dir(name):
    wd = os.path.join(core.workdir(), name)
    shutil.rmtree(wd, ignore_errors=True)
    os.makedirs(wd)
    return wd


def enumerate_points(dry, rng, big, budget):
    pts = []
    C = dry["ncalls"]
    reps = list(range(1, C + 1))
    if big or C > 40:
        keep = set([1, 2, C - 1, C] + [k for k in reps if k % 500 in (499, 0, 1)])
        keep |= set(int(x) for x in rng.choice(reps, size=min(len(reps), 6), replace=False))
        reps = sorted(k for k in keep if 1 <= k <= C)
    for k in reps:
        pts.append(("rep", (k, "before")))
        pts.append(("rep", (k, "after")))
    for n in range(1, dry["nopen"] + 1):
        size = int(dry["sizes"].get(str(n), 0))
        for b in sorted({0, 1, size // 3, size // 2, max(size - 1, 0)}):
            if b < size or b == 0:
                pts.append(("write", (n, b)))
    for n in range(1, dry["nreplace"] + 1):
        pts.append(("replace", (n, "before")))
        pts.append(("replace", (n, "after")))
    if len(pts) > budget:
        keep = set(int(x) for x in rng.choice(len(pts), size=budget, replace=False))
        # always keep every save-related point of the first and the last file
        pts = [p for i, p in enumerate(pts) if i in keep or p[0] != "rep" and
               p[1][0] in (1, dry["nopen"])][:budget * 2]
    return pts


def decide(ctx, conf, wd, tag, kind, point, restarts=1):
    """After the crashed child: read durable state, restart, check history."""
    nvar = nvariations(conf)
    d = lambda **e: (lambda: {**tag, "crash_point": [kind, list(point)], **e})
    crash_log = read_text(os.path.join(wd, "log_first.txt"))
    dur = durable_state(wd, nvar)
    unread = [k for k in dur if isinstance(k, str)]
    if unread:
        ctx.tally("crash-left-unreadable-partial-file")
    # work that the log shows as durably saved earlier is still held by
    # something on disk (a partial file or a loadable final results file)
    ever = durable_ever(wd, "first")
    fin = final_file_ids(wd)
    for v, n in ever.items():
        D = dur.get(v, (0, []))
        held = len(D[1]) if not isinstance(D, str) else 0
        if fin is not None and v < len(fin):
            held = max(held, len(fin[v]))
        ctx.ev("durable-work-kept", held >= n, cls="saved-work-gone-at-crash",
               detail=d(variation=v, saved_earlier=n, held_at_crash=held))
    if getattr(conf, "other_sim", False):
        # before the restart ANOTHER simulation (other results name, same working
        # directory and partial-results folder) runs to completion and cleans up
        # after itself: it must leave this one's saved work alone
        cb = Conf()
        cb.__dict__.update(conf.__dict__)
        cb.results_name = "other_" + conf.results_name
        cb.delete_partial = True
        cb.jobs = False
        stb = run_child(cb, wd, {}, 5 * 10 ** 6, "other")
        ctx.ev("restart-completes", stb == 0, cls="other-simulation-failed",
               detail=d(status=stb, error=read_text(os.path.join(wd, "err_other.txt"))[-400:]))
        for f in ("summary_other.json",):
            try:
                os.remove(os.path.join(wd, f))
            except OSError:
                pass
        for dp, _, fs in os.walk(wd):
            for f in fs:
                if f.startswith("other_") and "_unpack_" not in f:
                    os.remove(os.path.join(dp, f))
    status = run_child(conf, wd, {}, UID_RESTART, "second")
    err = read_text(os.path.join(wd, "err_second.txt"))
    ctx.ev("restart-completes", status == 0,
           cls="restart-raised:" + (err.strip().splitlines()[-1].split(":")[0] if err else
                                    str(status)),
           detail=d(status=status, error=err[-800:], unreadable=unread,
                    crash_log_tail=crash_log[-300:]))
    if status != 0:
        return False
    out = read_json(os.path.join(wd, "summary_second.json"))
    if out is None:
        ctx.ev("restart-completes", False, cls="no-summary", detail=d())
        return False
    new = calls_in_log(wd, "second")
    unp = unprepared_in_log(wd, "first") + unprepared_in_log(wd, "second")
    ctx.ev("restart-completes", not unp, cls="repetitions-run-without-the-start-hook",
           detail=d(log_lines=unp[:5]))
    ok_all = True
    for v in range(nvar):
        ids = out["ids"][v] if v < len(out["ids"]) else None
        D = dur.get(v, (0, []))
        Dids = D[1] if not isinstance(D, str) else []
        N = new.get(v, [])
        W = max(want_reps(conf), len(Dids))     # (a saved combination is never shortened)
        good = ids is not None and len(ids) == W and len(set(ids)) == len(ids) \
            and ids == Dids + N and len(N) == W - len(Dids) \
            and out["runned_reps"][v] == W and out["cnt"][v] == W
        ok_all = ok_all and good
        if not good:
            lost = sorted(set(Dids) - set(ids or []))
            dup = len(ids or []) - len(set(ids or []))
            cls = "lost-durable-work" if lost else ("double-counted" if dup else
                                                    ("wrong-count" if ids is not None and
                                                     len(ids) != W else "ids-mismatch"))
            ctx.ev("exactly-once", False, cls=cls,
                   detail=d(variation=v, final_ids=(ids or [])[:12], n_final=len(ids or []),
                            durable=Dids[:12], n_durable=len(Dids), new=N[:12], n_new=len(N),
                            runned_reps=out["runned_reps"]))
        else:
            ctx.ev("exactly-once", True)
    if getattr(conf, "jobs", False):
        return ok_all          # (no combined results file: the jobs' files are the product)
    # the final results file is loadable and holds the same repetitions
    final = None
    for dp, _, fs in os.walk(wd):
        for f in fs:
            if "_unpack_" not in f and (f.endswith(".pickle") or f.endswith(".json")) and \
                    not f.startswith("summary_"):
                final = os.path.join(dp, f)
    okf = False
    if final:
        try:
            sr = SimulationResults.load_from_file(final)
            okf = [[int(i) for i in x.get_result_accumulated_values()] for x in sr["ids"]] == \
                out["ids"]
        except Exception as e:
            okf = False
    ctx.ev("final-file", okf, cls="missing-or-different", detail=d(final=final))
    leftovers = [f for dp, _, fs in os.walk(wd) for f in fs if "_unpack_" in f]
    if conf.delete_partial:
        ctx.ev("final-file", not [f for f in leftovers if f.endswith(".pickle")],
               cls="partial-files-not-deleted", detail=d(leftovers=leftovers))
    return ok_all


def case_crash(ctx, rng, idx):
    big = (idx % 6 == 5)
    conf = gen_conf(rng, big)
    tag = conf_tag(conf)
    wd = fresh_dir("c07_%d_dry" % idx)
    st = run_child(conf, wd, {}, 0, "dry")
    dry = read_json(os.path.join(wd, "summary_dry.json"))
    nvar = nvariations(conf)
    ctx.ev("fault-free-run", st == 0 and dry is not None and
           dry["runned_reps"] == [want_reps(conf)] * nvar and
           all(len(x) == want_reps(conf) for x in dry["ids"]),
           detail={**tag, "status": st, "err": read_text(os.path.join(wd, "err_dry.txt"))[-600:]})
    shutil.rmtree(wd, ignore_errors=True)
    if st != 0 or dry is None:
        return
    budget = (6 if big else 70) if ctx.tier == "quick" else (40 if big else 10 ** 6)
    pts = enumerate_points(dry, rng, big, budget)
    complete = not big and len(pts) <= budget
    ctx.tally("configurations")
    if conf.skip_p:
        ctx.tally("configurations-with-skips")
    if conf.stop_at is not None:
        ctx.tally("configurations-with-early-stop")
    if complete:
        ctx.tally("configurations-enumerated-completely")
    for kind, point in pts:
        wd = fresh_dir("c07_%d_run" % idx)
        fl = {kind: point}
        if kind == "write" and rng.random() < 0.35:
            fl["mode"] = "raise"          # Ctrl-C style: an exception inside the write call
            kind_tag = "write-raise"
        else:
            kind_tag = kind
        st = run_child(conf, wd, fl, 0, "first")
        if st == 0:
            ctx.tally("failpoint-not-reached")       # e.g. a write shorter than expected
            shutil.rmtree(wd, ignore_errors=True)
            continue
        ctx.ev("crash-injected", st == 137, cls="child-died-differently",
               detail={**tag, "point": [kind, list(point)], "status": st,
                       "err": read_text(os.path.join(wd, "err_first.txt"))[-500:]})
        if st != 137:
            shutil.rmtree(wd, ignore_errors=True)
            continue
        ctx.tally("crash-points:" + kind_tag)
        ok = decide(ctx, conf, wd, tag, kind_tag, point)
        pos = "save" if kind != "rep" else ("first-rep" if point[0] == 1 else "later-rep")
        ctx.sig(kind, "big" if big else conf.rep_max, bool(conf.clock_step),
                conf.results_name.split(".")[-1],
                pos, point[1] if kind != "write" else ("b=0" if point[1] == 0 else "b>0"),
                conf.delete_partial)
        # double crash: crash again during the restart, then restart again
        if ctx.tier == "thorough" and ok and rng.random() < 0.15 and not big:
            wd2 = fresh_dir("c07_%d_run2" % idx)
            run_child(conf, wd2, {kind: point}, 0, "first")
            k2 = int(rng.integers(1, max(2, dry["ncalls"])))
            run_child(conf, wd2, {"rep": (k2, "after")}, UID_RESTART, "mid")
            dur = durable_state(wd2, nvar)
            st3 = run_child(conf, wd2, {}, UID_THIRD, "second")
            out = read_json(os.path.join(wd2, "summary_second.json"))
            good = st3 == 0 and out is not None and all(
                len(x) == want_reps(conf) and len(set(x)) == len(x) for x in out["ids"])
            if good:
                for v in range(nvar):
                    D = dur.get(v, (0, []))
                    Dids = D[1] if not isinstance(D, str) else []
                    good = good and out["ids"][v][:len(Dids)] == Dids
            ctx.ev("exactly-once", good, cls="double-crash",
                   detail={**tag, "point": [kind, list(point)], "second_crash_rep": k2,
                           "status": st3, "err": read_text(os.path.join(wd2, "err_second.txt"))[-500:]})
            shutil.rmtree(wd2, ignore_errors=True)
        shutil.rmtree(wd, ignore_errors=True)
    ctx.sample("crash" + ("-big" if big else ""), {**tag, "crash_points": len(pts),
                                                   "calls": dry["ncalls"], "saves": dry["nopen"]})


def case_sameobject(ctx, rng, idx):
    """simulate() is interrupted by an exception raised inside a repetition
    (Ctrl-C, an error in user code) and called again on the SAME runner."""
    conf = gen_conf(rng, False)
    conf.jobs = False
    tag = conf_tag(conf)
    nvar = nvariations(conf)
    W0 = want_reps(conf)
    C = W0 * nvar
    pts = list(range(1, C + 1)) if ctx.tier == "thorough" or C <= 6 else \
        sorted(set([1, C] + [int(x) for x in rng.integers(1, C + 1, size=4)]))
    for k in pts:
        exc = ["KeyboardInterrupt", "RuntimeError", "MemoryError"][int(rng.integers(0, 3))]
        wd = fresh_dir("c07_%d_same" % idx)
        st = run_child(conf, wd, {"raise": (k, exc)}, 0, "first")
        err = read_text(os.path.join(wd, "err_first.txt"))
        d = lambda **e: (lambda: {**tag, "interrupted_at_call": k, "exception": exc, **e})
        ctx.ev("restart-completes", st == 0, cls="same-object:" + (
            err.strip().splitlines()[-1].split(":")[0] if err else str(st)),
            detail=d(status=st, error=err[-800:]))
        out = read_json(os.path.join(wd, "summary_first.json")) if st == 0 else None
        if out is None or not out.get("interrupted"):
            if st == 0:
                ctx.tally("interrupt-not-reached")
            shutil.rmtree(wd, ignore_errors=True)
            continue
        dur = out["interrupted"]["durable"]
        before, after, seen = {}, {}, False
        for ln in read_text(os.path.join(wd, "log_first.txt")).splitlines():
            p = ln.split()
            if p and p[0] == "interrupt":
                seen = True
            elif p and p[0] == "call":
                (after if seen else before).setdefault(max(int(p[1]), 0), []).append(int(p[2]))
        unp = unprepared_in_log(wd, "first")
        ctx.ev("restart-completes", not unp, cls="same-object:repetitions-run-without-the-start-hook",
               detail=d(log_lines=unp[:5]))
        ctx.ev("exactly-once", len(out["ids"]) == nvar and len(out["runned_reps"]) == nvar,
               cls="same-object:one-result-per-combination",
               detail=d(n_results=len(out["ids"]), runned_reps=out["runned_reps"]))
        for v in range(min(nvar, len(out["ids"]))):
            ids = out["ids"][v]
            D = dur.get(str(v), (0, []))
            Dids = list(D[1]) if isinstance(D, (list, tuple)) else []
            N = after.get(v, [])
            W = max(W0, len(Dids))
            good = len(ids) == W and len(set(ids)) == W and ids == Dids + N and \
                out["runned_reps"][v] == W and out["cnt"][v] == W
            ctx.ev("exactly-once", good, cls="same-object:ids",
                   detail=d(variation=v, final_ids=ids[:12], n_final=len(ids), durable=Dids[:12],
                            new=N[:12], runned_reps=out["runned_reps"]))
        fin = final_file_ids(wd)
        ctx.ev("final-file", fin == out["ids"], cls="same-object:missing-or-different",
               detail=d())
        ctx.sample("same-object", {**tag, "interrupted_at_call": k, "exception": exc,
                                   "final_ids_head": [x[:6] for x in out["ids"]]})
        ctx.sig("same-object", exc, W0, nvar, "first" if k == 1 else ("last" if k == C else "mid"),
                bool(conf.clock_step), conf.stop_at is not None)
        shutil.rmtree(wd, ignore_errors=True)


def snapshot_files(wd):
    out = {}
    for dp, _, fs in os.walk(wd):
        for f in fs:
            if "_unpack_" in f:
                with open(os.path.join(dp, f), "rb") as fh:
                    out[os.path.relpath(os.path.join(dp, f), wd)] = fh.read()
    return out


def case_guard(ctx, rng, idx):
    """Partial results saved for different parameters are refused."""
    conf = gen_conf(rng, False)
    conf.unpacked = {"snr": np.array([0.0, 5.0, 10.0])}
    conf.rep_max = int(rng.choice([2, 3, 5]))
    conf.stop_at = None
    conf.skip_p = 0.0
    conf.fixed = {**conf.fixed, "noise_w": 1e-9}
    conf.delete_partial = False
    conf.results_name = ["res", "res.json"][idx % 2]      # no template: same file names
    tag = conf_tag(conf)
    wd = fresh_dir("c07_%d_guard" % idx)
    ncalls = conf.rep_max * 3
    k = int(rng.integers(conf.rep_max + 1, ncalls + 1))     # at least one complete variation
    complete_first = rng.random() < 0.5       # or an uninterrupted first run (all files exist)
    st = run_child(conf, wd, {} if complete_first else {"rep": (k, "before")}, 0, "first")
    files = snapshot_files(wd)
    if st != (0 if complete_first else 137) or not files:
        ctx.tally("guard-setup-failed")
        shutil.rmtree(wd, ignore_errors=True)
        return
    kind = ["fixed-value", "unpacked-list", "extra-parameter", "larger-rep_max",
            "same", "unpacked-list-keep-first", "fixed-value-close", "fixed-value-tiny",
            "unpacked-list-close"][idx % 9]
    if kind in ("unpacked-list-keep-first", "unpacked-list-close") and not complete_first:
        # the file of a LATER variation must exist: crash in the last variation
        shutil.rmtree(wd, ignore_errors=True)
        wd = fresh_dir("c07_%d_guard" % idx)
        st = run_child(conf, wd, {"rep": (2 * conf.rep_max + 1, "after")}, 0, "first")
        files = snapshot_files(wd)
    if kind == "fixed-value":
        ov = {"fixed": {**conf.fixed, "bias": 2.5}}
    elif kind == "fixed-value-close":      # differs in the 7th digit only
        ov = {"fixed": {**conf.fixed, "bias": 1.5 * (1 + float(rng.choice([1e-7, 1e-9, 3e-6])))}}
    elif kind == "fixed-value-tiny":       # a small-magnitude quantity (noise power in W)
        ov = {"fixed": {**conf.fixed, "noise_w": float(rng.choice([5e-9, 1.1e-9, 2e-12]))}}
    elif kind == "unpacked-list-close":
        ov = {"unpacked": {"snr": np.array([0.0, 5.0 * (1 + 1e-7), 10.0])}}
    elif kind == "unpacked-list":
        ov = {"unpacked": {"snr": np.array([1.0, 5.0, 10.0])}}
    elif kind == "unpacked-list-keep-first":
        ov = {"unpacked": {"snr": np.array([0.0, 6.0, 12.0])}}
    elif kind == "extra-parameter":
        ov = {"fixed": {**conf.fixed, "extra": 3}}
    elif kind == "larger-rep_max":
        ov = {"rep_max": conf.rep_max + int(rng.integers(1, 4))}
    else:
        ov = {}
    st2 = run_child(conf, wd, {}, UID_RESTART, "second", override=ov)
    err = read_text(os.path.join(wd, "err_second.txt"))
    d = {**tag, "changed": kind, "status": st2, "error": err[-500:]}
    if kind in ("fixed-value", "unpacked-list", "extra-parameter", "unpacked-list-keep-first",
                "fixed-value-close", "fixed-value-tiny", "unpacked-list-close"):
        ctx.ev("parameter-guard", st2 != 0 and "ValueError" in err, cls=kind + ":not-refused",
               detail=d)
        ctx.ev("parameter-guard", snapshot_files(wd) == files or
               all(files[f] == snapshot_files(wd).get(f) for f in files
                   if not kind.startswith("unpacked-list")),
               cls=kind + ":files-touched", detail=d)
    else:
        out = read_json(os.path.join(wd, "summary_second.json"))
        want = ov.get("rep_max", conf.rep_max)
        ok = st2 == 0 and out is not None and all(
            len(x) == want and len(set(x)) == want for x in out["ids"])
        ctx.ev("parameter-guard", ok, cls=kind + ":should-resume", detail=d)
    if idx % 3 == 1 and not getattr(conf, "jobs", False):
        # the same refusal when the SAME runner object is started again after an
        # interruption and a parameter was changed on it in between
        how = "item" if rng.random() < 0.6 else "add"
        wd3 = fresh_dir("c07_%d_guard_same" % idx)
        st3 = run_child(conf, wd3, {"raise": (conf.rep_max + 1, "RuntimeError"),
                                    "change_param": ("bias", 2.5, how)}, 0, "first")
        err3 = read_text(os.path.join(wd3, "err_first.txt"))
        log3 = read_text(os.path.join(wd3, "log_first.txt"))
        if "changed bias" in log3:
            ctx.ev("parameter-guard", st3 != 0 and "ValueError" in err3,
                   cls="same-object:changed-by-%s:not-refused" % how,
                   detail={**tag, "status": st3, "error": err3[-400:]})
        else:
            ctx.tally("same-object-guard-not-reached")
        shutil.rmtree(wd3, ignore_errors=True)
    ctx.sample("guard", {**tag, "changed": kind, "override": {k: repr(v) for k, v in ov.items()},
                         "restart_status": st2})
    ctx.sig("guard", kind, conf.rep_max)
    shutil.rmtree(wd, ignore_errors=True)


def classify(w):
    return None


GENS = {
    "crash": Gen(case_crash, 11, 1500),
    "guard": Gen(case_guard, 36, 900),
    "sameobject": Gen(case_sameobject, 12, 600),
}
MIN_EVALS = {"exactly-once": 300, "restart-completes": 150, "crash-injected": 150,
             "fault-free-run": 10, "parameter-guard": 10, "final-file": 150,
             "durable-work-kept": 50}
