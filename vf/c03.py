"""C03 -- TDL channel output is the convolution with the impulse response it
reports; frequency-domain transmission; profile discretisation."""
from __future__ import annotations

import math

import numpy as np

from .core import Gen
from .num import EPS, fro

from pyphysim.channels import fading as FA
from pyphysim.channels import fading_generators as FG
from pyphysim.channels import singleuser as SU
from pyphysim.channels import multiuser as MU

ID = "C03"
RULE = ("channel objects {TdlChannel SISO, TdlMimoChannel, SuChannel (with / "
        "without path loss), SuMimoChannel, MuChannel, MuMimoChannel} x tap "
        "profiles {COST259 TU/RA/HT at several Ts, random 1-8 taps with "
        "colliding and unsorted delays, single tap at a non-zero delay} x "
        "Rayleigh / Jakes generators x antennas up to 4x3 x histories of 1-6 "
        "consecutive transmissions on the same object mixing time- and "
        "frequency-domain calls and direction switches x input lengths 1-300 x "
        "subcarrier selections {None, index arrays, lists, slices with steps "
        "1-5 and spans not divisible by the step}.  After every transmission "
        "the REPORTED impulse response is read and the oracle recomputes the "
        "output from it (direct tap loop / defining-sum DFT).  Signature = "
        "(object kind, antennas, generator, domain, selection kind, direction, "
        "position in history); non-trivial = more than one tap or antenna, or "
        "a later transmission of a history.  "
        "Frequency-domain cases include channel memory of one, two and several "
        "fft sizes (taps fold onto the grid); single-link path loss includes "
        "exactly 0. "
        "In the multiuser slots some (or all) transmitters are silent (all-zero rows); every link's reported response must be the one of THIS transmission (sample count checked before use). "
        "Slices with negative bounds; transmissions whose response nobody queries between the observed ones. "
        "3 % of the time-domain inputs are whole frames of 4000-40000 samples. "
        "The dense view and the frequency response of every reported response are compared with its sparse taps. ")
ASSUMPTIONS = ["for channel memory >= fft size the DFT of the reported response is "
               "the defining sum over ALL taps, sum_d h[d] exp(-2 pi i k d / fft) "
               "(taps fold onto the fft grid; the same reading C02's exact "
               "equalisation needs)",
               "tap sample index = input sample index (the reported response "
               "has one sample per input sample)"]


def rand_c(rng, *shape):
    return (rng.standard_normal(shape) + 1j * rng.standard_normal(shape)) / math.sqrt(2)


def make_generator(rng, kind, shape=None, Ts=None):
    if kind == "rayleigh":
        return FG.RayleighSampleGenerator(shape)
    Fd = {"jakes": float(10.0 ** rng.uniform(0, 2.5)), "jakes-static": 0.0}[kind]
    return FG.JakesSampleGenerator(Fd, Ts if Ts is not None else 1e-4,
                                   int(rng.integers(1, 12)), shape=shape,
                                   RS=np.random.RandomState(int(rng.integers(0, 2 ** 31))))


def gen_profile(rng, max_delay=None):
    """Returns (powers_dB, delays_in_samples-ish, Ts, description)."""
    k = rng.random()
    Ts = float(10.0 ** rng.uniform(-8, -3))
    if k < 0.2:
        prof = [FA.COST259_TUx, FA.COST259_RAx, FA.COST259_HTx][int(rng.integers(0, 3))]
        Ts = float(rng.choice([3.25e-8, 1e-7, 5e-7, 2e-6]))
        return prof, None, None, Ts, prof.name
    ntaps = int(rng.integers(1, 9))
    top = max_delay if max_delay is not None else int(rng.choice([3, 8, 20, 60]))
    d = rng.uniform(0, max(top, 0.4), ntaps)
    if rng.random() < 0.4:
        d = np.round(d)                               # colliding integer delays
    if rng.random() < 0.5:
        d[0] = 0.0
    if rng.random() < 0.5:
        d = np.sort(d)
    if ntaps == 1 and rng.random() < 0.6:
        d = np.array([float(rng.integers(1, max(2, top + 1)))])   # single tap, delay != 0
    p = rng.uniform(-30, 0, ntaps)
    return None, p, d * Ts, Ts, "random%d" % ntaps


def build_profile(ctx, rng, max_delay=None):
    prof, p, d, Ts, name = gen_profile(rng, max_delay)
    if prof is None:
        okc, prof = ctx.call("discretisation", FA.TdlChannelProfile, p, d,
                             cls="profile-constructor", detail={"powers_dB": p, "delays": d})
        if not okc:
            return None
    return prof, Ts, name


def dense(resp):
    """Dense taps of a reported response, built independently from the sparse
    values and the tap indexes."""
    sp = np.asarray(resp.tap_values_sparse)
    idx = np.asarray(resp.tap_indexes_sparse).astype(int)
    D = int(idx[-1]) + 1
    out = np.zeros((D, ) + sp.shape[1:], dtype=complex)
    for i, dl in enumerate(idx):
        out[dl] += sp[i]
    return out


def conv_oracle(h, x, switched):
    """h: (D, N) or (D, Nr, Nt, N); x: (N,) or (nin, N)."""
    D = h.shape[0]
    N = h.shape[-1]
    if h.ndim == 2:
        y = np.zeros(N + D - 1, dtype=complex)
        for d in range(D):
            y[d:d + N] += h[d] * x
        return y
    _, Nr, Nt, _ = h.shape
    x = np.atleast_2d(x)
    if switched:
        y = np.zeros((Nt, N + D - 1), dtype=complex)
        for d in range(D):
            for r in range(Nr):
                y[:, d:d + N] += h[d, r, :, :] * x[r]
    else:
        y = np.zeros((Nr, N + D - 1), dtype=complex)
        for d in range(D):
            for t in range(Nt):
                y[:, d:d + N] += h[d, :, t, :] * x[t]
    return y


def freq_oracle(h, x, fft, sel, switched):
    """Per block multiplication by the defining-sum DFT of the reported taps."""
    D = h.shape[0]
    nblocks = h.shape[-1]
    k = np.arange(fft)
    E = np.exp(-2j * np.pi * np.outer(k, np.arange(D)) / fft)       # fft x D
    ksel = k if sel is None else k[sel]
    bs = len(ksel)
    if h.ndim == 2:
        y = np.zeros(nblocks * bs, dtype=complex)
        for b in range(nblocks):
            H = E @ h[:, b]
            y[b * bs:(b + 1) * bs] = H[ksel] * x[b * bs:(b + 1) * bs]
        return y, bs
    _, Nr, Nt, _ = h.shape
    x = np.atleast_2d(x)
    nout = Nt if switched else Nr
    y = np.zeros((nout, nblocks * bs), dtype=complex)
    for b in range(nblocks):
        H = np.tensordot(E, h[..., b], axes=(1, 0))                   # fft x Nr x Nt
        Hs = H[ksel]
        xb = x[:, b * bs:(b + 1) * bs]
        if switched:
            for r in range(Nr):
                y[:, b * bs:(b + 1) * bs] += (Hs[:, r, :] * xb[r][:, None]).T
        else:
            for t in range(Nt):
                y[:, b * bs:(b + 1) * bs] += (Hs[:, :, t] * xb[t][:, None]).T
    return y, bs


def gen_selection(rng, fft):
    kind = str(rng.choice(["none", "array", "list", "slice1", "slice-step", "slice-open",
                           "slice-negative"]))
    if kind == "slice-negative":
        # the last carriers of the grid, written the Python way
        a = int(rng.integers(1, fft + 1))
        st = None if rng.random() < 0.5 else int(rng.integers(1, 4))
        form = int(rng.integers(0, 3))
        if form == 0:
            return slice(-a, None, st), kind
        if form == 1 and a < fft:
            return slice(None, -a, st), kind
        b = int(rng.integers(0, a))
        return slice(-a, fft - b if rng.random() < 0.5 else (-b if b else None), st), kind
    if kind == "none":
        return None, kind
    if kind in ("array", "list"):
        n = int(rng.integers(1, fft + 1))
        idx = rng.choice(fft, size=n, replace=False)
        if rng.random() < 0.5:
            idx = np.sort(idx)
        if rng.random() < 0.4:
            # centred allocations are written with negative subcarrier numbers
            # (-K..-1 for the upper half of the fft grid)
            idx = np.where(idx >= (fft + 1) // 2, idx - fft, idx)
            kind += "-negative"
        return (idx if kind.startswith("array") else [int(i) for i in idx]), kind
    if kind == "slice1":
        a = int(rng.integers(0, fft))
        b = int(rng.integers(a + 1, fft + 1))
        return slice(a, b), kind
    if kind == "slice-step":
        st = int(rng.integers(2, 6))
        a = int(rng.integers(0, max(1, fft - 1)))
        b = int(rng.integers(a + 1, fft + 1))
        if rng.random() < 0.6 and (b - a) % st == 0 and b < fft:
            b += 1                                  # span not divisible by the step
        return slice(a, b, st), kind
    st = int(rng.integers(1, 5))
    return (slice(int(rng.integers(0, max(1, fft // 2))), None, st) if rng.random() < 0.5
            else slice(None, int(rng.integers(1, fft + 1)), st)), kind


def sel_len(sel, fft):
    return fft if sel is None else len(np.arange(fft)[sel])


def sel_repr(sel):
    return repr(sel) if not isinstance(sel, np.ndarray) else "array(%s)" % sel.tolist()


def transmit_and_check(ctx, ch, get_resp, kind, mimo, rng, tag, pos, pathloss=None):
    """One transmission on a single-link object + oracle on the response
    reported afterwards."""
    switched = bool(ch.switched_direction)
    if mimo:
        Nr, Nt = mimo
        nin = Nr if switched else Nt
    D = int(ch.num_taps_with_padding)
    domain = "time" if rng.random() < 0.55 or D > 64 else "freq"
    d = lambda **e: (lambda: {**tag, "domain": domain, "switched": switched, "position": pos,
                              **e})
    if domain == "time":
        N = int(rng.choice([1, 2, 3, 7, 30, 100, 300])) if rng.random() < 0.5 else \
            int(rng.integers(1, 120))
        if rng.random() < 0.03 and D <= 16 and ctx.case < 20000:     # (bounded number per run)
            N = int(rng.integers(4000, 40000))        # a whole frame in one call
        x = rand_c(rng, nin, N) if mimo else rand_c(rng, N)
        if mimo and nin == 1 and rng.random() < 0.5:
            x = x[0]                                 # 1-D signal for a single input antenna
        xb = x.copy()
        okc, y = ctx.call("output-is-convolution", ch.corrupt_data, x, detail=d(N=N))
        if not okc:
            return
        ctx.hold("output-is-convolution", "corrupt_data", y, d(N=N))
        ctx.ev("args-not-mutated", np.array_equal(x, xb), cls="corrupt_data", detail=d())
        okc, resp = ctx.call("output-is-convolution", get_resp, detail=d(N=N))
        if not okc:
            return
        h = dense(resp)
        ctx.ev("reported-response-shape", h.shape[-1] == N and resp.num_samples == N and
               h.shape[0] == D, cls="time", detail=d(N=N, got=h.shape, D=D))
        if h.shape[-1] != N:
            return
        want = conv_oracle(h, x, switched)
        y = np.asarray(y)
        ctx.ev("output-length", y.shape == want.shape and y.shape[-1] == N + D - 1, cls=kind,
               detail=d(N=N, got=y.shape, want=want.shape, memory=D - 1))
        if y.shape == want.shape:
            ctx.within("output-is-convolution", fro(y - want),
                       64 * EPS * D * (fro(want) + 1e-300), "%s:%s" % (kind, "switched" if
                                                                        switched else "direct"),
                       d(N=N))
        # the library's own dense view agrees with the sparse one
        ctx.within("reported-response-shape", fro(np.asarray(resp.tap_values) - h), 1e-300 +
                   4 * EPS * fro(h), "dense-view", d())
        ctx.sig(kind, mimo, tag["generator"], "time", None, switched, min(pos, 2))
    else:
        fft = int(rng.choice([4, 8, 16, 64])) if D <= 4 else int(2 ** math.ceil(math.log2(D + 1)))
        fft = max(fft, D + 1) if rng.random() < 0.2 else fft
        if fft <= D - 1:
            fft = D + 1
        if D >= 3 and rng.random() < 0.25:
            # channel memory beyond the FFT size (once, twice, several times): the
            # response at subcarrier k is still sum_d h[d] exp(-2 pi i k d / fft),
            # i.e. the taps fold onto the fft grid
            fft = max(2, int(rng.integers(2, D)) // int(rng.choice([1, 1, 2, 3])))
        sel, skind = gen_selection(rng, fft)
        bs = sel_len(sel, fft)
        if bs == 0:
            return
        nblocks = int(rng.integers(1, 5))
        N = bs * nblocks
        x = rand_c(rng, nin, N) if mimo else rand_c(rng, N)
        okc, y = ctx.call("freq-domain-per-block", ch.corrupt_data_in_freq_domain, x, fft, sel,
                          cls="raised:" + skind,
                          detail=d(fft=fft, selection=sel_repr(sel), block=bs, N=N))
        if not okc:
            return
        okc, resp = ctx.call("freq-domain-per-block", get_resp, detail=d())
        if not okc:
            return
        h = dense(resp)
        ctx.ev("reported-response-shape", h.shape[-1] == nblocks, cls="freq:one-sample-per-block",
               detail=d(got=h.shape, blocks=nblocks))
        if h.shape[-1] != nblocks:
            return
        # the other views of the reported response agree with its sparse taps:
        # the dense taps, and the frequency response on the fft grid
        ctx.within("reported-response-shape", fro(np.asarray(resp.tap_values) - h), 1e-300 +
                   4 * EPS * fro(h), "dense-view:freq", d())
        if h.shape[0] <= fft:
            okf, FR = ctx.call("freq-domain-per-block", resp.get_freq_response, fft,
                               cls="get_freq_response-raised", detail=d(fft=fft))
            if okf:
                kk = np.arange(fft)
                E = np.exp(-2j * np.pi * np.outer(kk, np.arange(h.shape[0])) / fft)
                wantF = np.tensordot(E, h, axes=(1, 0))
                FR = np.asarray(FR)
                hs = float(np.max(np.sum(np.abs(h), axis=0))) if h.size else 0.0
                ctx.ev("freq-domain-per-block", FR.shape == wantF.shape and
                       fro(FR - wantF) <= 256 * EPS * fft * (hs * math.sqrt(wantF.size) + 1e-300),
                       cls="reported-freq-response-is-the-DFT-of-the-reported-taps",
                       detail=d(fft=fft, got=FR.shape, want=wantF.shape))
        want, _ = freq_oracle(h, x, fft, sel, switched)
        y = np.asarray(y)
        ctx.ev("output-length", y.shape == want.shape, cls=kind + ":freq",
               detail=d(got=y.shape, want=want.shape))
        if y.shape == want.shape:
            # H[k] sums one term per tap (D of them, which may exceed fft and
            # cancel): the rounding error scales with sum_d |h[d]| |x|, not with |H x|
            hsum = float(np.max(np.sum(np.abs(h), axis=0))) if h.size else 0.0
            ctx.within("freq-domain-per-block", fro(y - want),
                       256 * EPS * max(fft, h.shape[0]) * (fro(want) + hsum * fro(x) + 1e-300),
                       "%s:%s" % (kind, skind), d(fft=fft, selection=sel_repr(sel)))
        ctx.sig(kind, mimo, tag["generator"], "freq", skind, switched, min(pos, 2))


def case_single_link(ctx, rng, idx):
    kind = ["tdl-siso", "tdl-mimo", "su-siso", "su-mimo", "su-siso-pathloss"][idx % 5]
    gkind = ["rayleigh", "jakes", "jakes-static"][(idx // 5) % 3]
    built = build_profile(ctx, rng)
    if built is None:
        return
    prof, Ts, pname = built
    mimo = None
    shape = None
    if kind in ("tdl-mimo", "su-mimo"):
        mimo = (int(rng.integers(1, 5)), int(rng.integers(1, 4)))
        if kind == "su-mimo":
            mimo = (mimo[0], mimo[0])
        shape = mimo
    tag = {"kind": kind, "generator": gkind, "profile": pname, "Ts": Ts, "antennas": mimo}
    gen = make_generator(rng, gkind, shape, Ts)

    def construct():
        if kind == "tdl-siso":
            return FA.TdlChannel(gen, prof, Ts=Ts if not prof.is_discretized else None)
        if kind == "tdl-mimo":
            return FA.TdlMimoChannel(gen, prof, Ts=Ts)
        if kind == "su-mimo":
            return SU.SuMimoChannel(mimo[0], gen, prof, Ts=Ts)
        return SU.SuChannel(gen, prof, Ts=Ts)
    okc, ch = ctx.call("output-is-convolution", construct, cls="constructor", detail=tag)
    if not okc:
        return
    if ch.num_taps_with_padding > 400:
        return
    pl = None
    if kind == "su-siso-pathloss" or (kind == "su-mimo" and rng.random() < 0.5):
        pl = float(10.0 ** rng.uniform(-6, 0)) if rng.random() < 0.85 else 0.0   # (0 = blocked link)
        ch.set_pathloss(pl)
        tag["pathloss"] = pl
    nsteps = int(rng.integers(1, 7))
    for pos in range(nsteps):
        if mimo and rng.random() < 0.3:
            ch.switched_direction = not ch.switched_direction
        if pl is not None and rng.random() < 0.2:
            pl = None if rng.random() < 0.3 else (float(10.0 ** rng.uniform(-6, 0))
                                                  if rng.random() < 0.8 else 0.0)
            ch.set_pathloss(pl)
        if rng.random() < 0.3:
            # a transmission whose response nobody asks for (data of another
            # slot): the next query must still report the NEXT transmission
            sw = bool(ch.switched_direction)
            nin = (mimo[0] if sw else mimo[1]) if mimo else None
            D0 = int(ch.num_taps_with_padding)
            try:
                if rng.random() < 0.5 or D0 > 64:
                    n0 = int(rng.integers(1, 40))
                    ch.corrupt_data(rand_c(rng, nin, n0) if mimo else rand_c(rng, n0))
                    tag["unobserved_before"] = "time"
                else:
                    fft0 = int(2 ** math.ceil(math.log2(D0 + 1)))
                    n0 = fft0 * int(rng.integers(1, 4))
                    ch.corrupt_data_in_freq_domain(rand_c(rng, nin, n0) if mimo
                                                   else rand_c(rng, n0), fft0)
                    tag["unobserved_before"] = "freq"
            except Exception as e:           # noqa: BLE001
                ctx.ev("output-is-convolution", False, cls="unobserved-transmission-raised:" +
                       type(e).__name__, detail={**tag, "exc": repr(e)})
                return
        else:
            tag.pop("unobserved_before", None)
        transmit_and_check(ctx, ch, ch.get_last_impulse_response, kind, mimo, rng, tag, pos, pl)
    # linearity on a time-invariant channel
    if gkind == "jakes-static" and not mimo:
        N = int(rng.integers(1, 60))
        x1, x2 = rand_c(rng, N), rand_c(rng, N)
        a, b = complex(rand_c(rng, 1)[0]), complex(rand_c(rng, 1)[0])
        y1, y2 = ch.corrupt_data(x1), ch.corrupt_data(x2)
        y12 = ch.corrupt_data(a * x1 + b * x2)
        ctx.within("linear-in-input", fro(y12 - (a * y1 + b * y2)),
                   256 * EPS * (fro(y12) + fro(y1) + fro(y2) + 1e-300), kind, tag)
    ctx.sample(kind, {**tag, "taps_with_padding": int(ch.num_taps_with_padding),
                      "transmissions": nsteps})


def silence(rng, x):
    """Some transmitters have nothing to send in this slot (all-zero rows)."""
    if rng.random() >= 0.3:
        return []
    n = x.shape[0]
    rows = [i for i in range(n) if rng.random() < 0.5] or [int(rng.integers(0, n))]
    if rng.random() < 0.15:
        rows = list(range(n))
    for i in rows:
        x[i] = 0
    return rows


def case_multiuser(ctx, rng, idx):
    mimo_links = bool(idx % 2)
    gkind = ["rayleigh", "jakes"][(idx // 2) % 2]
    nrx, ntx = int(rng.integers(1, 4)), int(rng.integers(1, 4))
    built = build_profile(ctx, rng, max_delay=12)
    if built is None:
        return
    prof, Ts, pname = built
    ant = (int(rng.integers(1, 4)), int(rng.integers(1, 3))) if mimo_links else None
    gen = make_generator(rng, gkind, None, Ts)
    tag = {"kind": "mu-mimo" if mimo_links else "mu-siso", "links": (nrx, ntx), "antennas": ant,
           "generator": gkind, "profile": pname}
    N_arg = (nrx, ntx) if (nrx != ntx or rng.random() < 0.5) else nrx

    def construct():
        if mimo_links:
            return MU.MuMimoChannel(N_arg, ant[0], ant[1], gen, prof, Ts=Ts)
        return MU.MuChannel(N_arg, gen, prof, Ts=Ts)
    okc, ch = ctx.call("multiuser-sum-of-links", construct, cls="constructor", detail=tag)
    if not okc:
        return
    D = int(ch.num_taps_with_padding)
    if D > 200:
        return
    pl = None
    if rng.random() < 0.6:
        pl = 10.0 ** rng.uniform(-4, 0, size=(nrx, ntx))
        ch.set_pathloss(pl)
    for pos in range(int(rng.integers(1, 4))):
        if rng.random() < 0.3:
            ch.switched_direction = not ch.switched_direction
        sw = bool(ch.switched_direction)
        nin, nout = (nrx, ntx) if sw else (ntx, nrx)
        domain = "time" if rng.random() < 0.6 else "freq"
        d = lambda **e: (lambda: {**tag, "switched": sw, "domain": domain, "position": pos,
                                  "pathloss": pl is not None, **e})
        if mimo_links:
            ain = ant[0] if sw else ant[1]
        if domain == "time":
            N = int(rng.integers(1, 80))
            x = rand_c(rng, nin, ain, N) if mimo_links else rand_c(rng, nin, N)
            silent = silence(rng, x)
            okc, out = ctx.call("multiuser-sum-of-links", ch.corrupt_data, x,
                                detail=d(N=N, silent_transmitters=silent))
        else:
            fft = max(4, int(2 ** math.ceil(math.log2(D + 1))))
            sel, skind = gen_selection(rng, fft)
            bs = sel_len(sel, fft)
            if bs == 0:
                continue
            N = bs * int(rng.integers(1, 4))
            x = rand_c(rng, nin, ain, N) if mimo_links else rand_c(rng, nin, N)
            silent = silence(rng, x)
            okc, out = ctx.call("multiuser-sum-of-links", ch.corrupt_data_in_freq_domain, x,
                                fft, sel, cls="raised:" + skind,
                                detail=d(fft=fft, selection=sel_repr(sel)))
        if not okc:
            continue
        ctx.ev("multiuser-sum-of-links", len(out) == nout, cls="receiver-count", detail=d())
        if len(out) != nout:
            continue
        if silent:
            d0 = d
            d = lambda **e: d0(silent_transmitters=silent, **e)
        worst_ok = True
        for o in range(nout):
            want = None
            scale_parts = 0.0
            for i in range(nin):
                r_idx, t_idx = (i, o) if sw else (o, i)
                okr, resp = ctx.call("multiuser-sum-of-links", ch.get_last_impulse_response,
                                     r_idx, t_idx, cls="response-query-raised",
                                     detail=d(link=(r_idx, t_idx)))
                if not okr:
                    want = None
                    break
                h = dense(resp)
                nsamp = N if domain == "time" else N // bs
                ctx.ev("multiuser-sum-of-links", h.shape[-1] == nsamp,
                       cls="response-is-of-this-transmission",
                       detail=d(link=(r_idx, t_idx), response_samples=h.shape[-1],
                                expected=nsamp))
                if h.shape[-1] != nsamp:
                    want = None
                    break
                if domain == "time":
                    part = conv_oracle(h, x[i], sw)
                else:
                    part, _ = freq_oracle(h, x[i], fft, sel, sw)
                want = part if want is None else want + part
                scale_parts = scale_parts + fro(part)
            if want is None:
                worst_ok = False
                continue
            got = np.asarray(out[o])
            if got.shape != want.shape:
                ctx.ev("multiuser-sum-of-links", False, cls="shape",
                       detail=d(receiver=o, got=got.shape, want=want.shape))
                worst_ok = False
                continue
            ctx.within("multiuser-sum-of-links", fro(got - want),
                       256 * EPS * (D + 8) * nin * (fro(want) + scale_parts + 1e-300),
                       "%s:%s" % (tag["kind"], domain), d(receiver=o))
        ctx.sig(tag["kind"], (nrx, ntx), ant, gkind, domain, sw, pl is not None)
    ctx.sample(tag["kind"], tag)


def case_discretise(ctx, rng, idx):
    ntaps = int(rng.integers(1, 12))
    Ts = float(10.0 ** rng.uniform(-8, -3))
    mode = idx % 4
    if mode == 0:
        delays = np.sort(rng.uniform(0, 30, ntaps)) * Ts
    elif mode == 1:
        delays = rng.integers(0, 6, ntaps).astype(float) * Ts * rng.uniform(0.9, 1.1)   # collisions
    elif mode == 2:
        delays = rng.uniform(0, 30, ntaps) * Ts                                          # unsorted
    else:
        delays = np.array([float(rng.integers(0, 40))]) * Ts                             # one tap
        ntaps = 1
    powers = rng.uniform(-40, 0, ntaps)
    tag = {"powers_dB": powers, "delays": delays, "Ts": Ts, "mode": mode}
    okc, prof = ctx.call("discretisation", FA.TdlChannelProfile, powers, delays,
                         cls="profile-constructor", detail=tag)
    if not okc:
        return
    okc, dp = ctx.call("discretisation", prof.get_discretize_profile, Ts, detail=tag)
    if not okc:
        return
    want_idx = np.unique(np.round(delays / Ts).astype(int))
    got_idx = np.asarray(dp.tap_delays)
    ctx.ev("discretisation", np.array_equal(got_idx, want_idx) and
           np.issubdtype(got_idx.dtype, np.integer), cls="delays-unique-sorted-integers",
           detail={**tag, "got": got_idx, "want": want_idx})
    lin = 10.0 ** (powers / 10.0)
    wantp = np.array([lin[np.round(delays / Ts).astype(int) == k].sum() for k in want_idx])
    wantp = wantp / wantp.sum()
    gotp = np.asarray(dp.tap_powers_linear)
    ctx.ev("discretisation", gotp.shape == wantp.shape and
           bool(np.all(np.abs(gotp - wantp) <= 64 * EPS * ntaps)), cls="merged-powers",
           detail={**tag, "got": gotp, "want": wantp})
    ctx.within("discretisation", abs(float(gotp.sum()) - 1.0), 4 * EPS * max(len(gotp), 4),
               "powers-sum-to-one", tag)
    ctx.ev("discretisation", dp.num_taps_with_padding == int(want_idx[-1]) + 1 and
           dp.num_taps == len(want_idx) and dp.is_discretized and dp.Ts == Ts,
           cls="padding-and-counts", detail={**tag, "padding": dp.num_taps_with_padding})
    # statistics are finite and non-negative for every profile
    ctx.ev("discretisation", math.isfinite(prof.rms_delay_spread) and prof.rms_delay_spread >= 0
           and math.isfinite(dp.rms_delay_spread), cls="delay-spread", detail=tag)
    try:
        dp.get_discretize_profile(Ts)
        ctx.ev("discretisation", False, cls="rediscretise-accepted", detail=tag)
    except RuntimeError:
        ctx.ev("discretisation", True)
    ctx.sig("disc", mode, ntaps, len(want_idx) < ntaps)


def classify(w):
    return None


GENS = {
    "single-link": Gen(case_single_link, 2400, 480000),
    "multiuser": Gen(case_multiuser, 800, 160000),
    "discretise": Gen(case_discretise, 2000, 400000),
}
MIN_EVALS = {"output-is-convolution": 1000, "freq-domain-per-block": 600,
             "output-length": 1500, "multiuser-sum-of-links": 800,
             "discretisation": 3000, "linear-in-input": 30,
             "reported-response-shape": 2000}
