"""C15 -- Gray labelling of constellations, Gray code bijection, bit errors."""
from __future__ import annotations

import math

import numpy as np

from .core import Gen

from pyphysim.modulators import fundamental as F
from pyphysim.util import conversion as CV
from pyphysim.util import misc as MISC

ID = "C15"
RULE = ("labels: every PSK order 2..2^12 / QAM order 4..4^6 / BPSK / QPSK x a "
        "history of 0-4 phase-offset changes; after construction and after "
        "every change all minimum-distance pairs (found by an independent "
        "pairwise search) are checked for one-bit label difference.  codes: "
        "all integers 0..2^16 (exhaustive), 2^k and 2^k+-1 up to 2^62, random "
        "62-bit values, as Python ints / int64 / int32 / 0-d arrays.  "
        "biterrors: random array pairs, shapes 0-d..3-d, each axis.  "
        "Signature = (kind, class, M, history length | dtype, shape kind, "
        "magnitude class); non-trivial = at least one pair / integer decided.  "
        "Bit-error operands also come in different integer widths (one narrow, "
        "one 64-bit with values outside the narrow range). "
        "Both bit-error operands in one narrow dtype (counts beyond that dtype); arrays that start with 0 and end with len-1 without being arange. "
        "Numpy scalars of every integer width (form npscalar); uint64 bit-error operands with the top bit set. ")
ASSUMPTIONS = ["popcount reference is Python's int.bit_count",
               "minimum-distance pairs: distance <= d_min(1+1e-9)"]


def popcount_arr(x):
    x = np.asarray(x)
    if x.size > 5000:            # byte-table popcount for long arrays (still independent)
        b = np.ascontiguousarray(x.astype(np.uint64)).view(np.uint8).reshape(x.size, 8)
        table = np.array([bin(i).count("1") for i in range(256)], dtype=np.int64)
        return table[b].sum(axis=1).reshape(x.shape)
    return np.array([int(v).bit_count() for v in x.ravel()],
                    dtype=np.int64).reshape(np.shape(x))


# ------------------------------------------------------------------ labels --
def min_distance_pairs(sym):
    s = np.asarray(sym, dtype=complex)
    M = s.size
    dmin = np.inf
    for a in range(0, M, 512):
        d = np.abs(s[a:a + 512, None] - s[None, :])
        d[np.arange(d.shape[0]), a + np.arange(d.shape[0])] = np.inf
        dmin = min(dmin, d.min())
    pairs = []
    for a in range(0, M, 512):
        d = np.abs(s[a:a + 512, None] - s[None, :])
        d[np.arange(d.shape[0]), a + np.arange(d.shape[0])] = np.inf
        i, j = np.nonzero(d <= dmin * (1 + 1e-9))
        i = i + a
        keep = i < j
        pairs.append(np.stack([i[keep], j[keep]], axis=1))
    return dmin, np.concatenate(pairs, axis=0)


def d1_model_table(M):
    """The table the pinned (test-fixed) QAM mapping produces: grid points
    permuted by the Gray code of row/column instead of its inverse."""
    L = int(round(math.sqrt(M)))
    grid = np.empty(M, dtype=complex)
    for jj in range(L):
        for ii in range(L):
            grid[ii * L + jj] = complex(-(L - 1) + jj * 2, (L - 1) - ii * 2)
    grid = grid / math.sqrt((M - 1) * 2.0 / 3.0)
    g = [n ^ (n >> 1) for n in range(L)]
    half = (M - 1).bit_length() // 2
    idx = np.array([(g[r] << half) + g[c] for r in range(L) for c in range(L)])
    return grid[idx]


def check_labels(ctx, m, cls, M, stage, hist):
    sym = np.asarray(m.symbols)
    dmin, pairs = min_distance_pairs(sym)
    diff = np.array([(int(a) ^ int(b)).bit_count() for a, b in pairs])
    bad = np.flatnonzero(diff != 1)
    vcls = None
    extra = {}
    if bad.size:
        if cls == "QAM":
            vcls = "QAM:M>=64" if M >= 64 else "QAM:M<64"
            extra["matches_pinned_table"] = bool(
                sym.shape == (M,) and np.allclose(sym, d1_model_table(M),
                                                  rtol=0, atol=1e-12))
        else:
            vcls = "PSK:ctor" if stage == "ctor" else "PSK:after-setPhaseOffset"
            # natural order: label k sits at angle index k (up to rotation)
            ang = np.angle(sym * np.exp(-1j * np.angle(sym[0])))
            ang = np.mod(ang + 1e-9, 2 * np.pi)
            extra["natural_order"] = bool(
                np.array_equal(np.argsort(ang), np.arange(M)))
    ctx.ev("gray-neighbours", bad.size == 0, cls=vcls, n=len(pairs),
           detail=lambda: {"class": cls, "M": M, "stage": stage,
                           "history": hist, "bad_pairs": int(bad.size),
                           "pairs": int(len(pairs)),
                           "first_bad": [int(x) for x in pairs[bad[0]]],
                           **extra})
    ctx.tally("min-distance-pairs", len(pairs))


def label_specs(tier):
    out = [("BPSK", 2), ("QPSK", 4)]
    out += [("PSK", 2 ** k) for k in range(1, 13)]
    out += [("QAM", 4 ** k) for k in range(1, 7)]
    return out


HISTLEN = [0, 1, 2, 3, 4]


def case_labels(ctx, rng, idx):
    sp = label_specs(ctx.tier)
    cls, M = sp[idx % len(sp)]
    nset = HISTLEN[(idx // len(sp)) % len(HISTLEN)]
    variant = idx // (len(sp) * len(HISTLEN))
    if cls in ("BPSK", "QAM") and nset > 0:
        return
    hist = []
    if cls == "BPSK":
        m = F.BPSK()
    elif cls == "QPSK":
        m = F.QPSK()
    elif cls == "QAM":
        m = F.QAM(M)
    else:
        if variant % 2 == 1:
            off = float(rng.uniform(-7, 7))
            hist.append(["ctor", off])
            m = F.PSK(M, off)
        else:
            m = F.PSK(M)
    check_labels(ctx, m, cls, M, "ctor", list(hist))
    ctx.sig("labels", cls, M, 0, variant % 2)
    for k in range(nset):
        off = float(rng.choice([0.0, math.pi / M, rng.uniform(-7, 7)]))
        hist.append(["set", off])
        ok, _ = ctx.call("gray-neighbours", m.setPhaseOffset, off,
                         detail={"class": cls, "M": M})
        if not ok:
            return
        check_labels(ctx, m, cls, M, "after-set", list(hist))
        ctx.sig("labels", cls, M, k + 1, variant % 2)
    ctx.sample("labels", {"class": cls, "M": M, "history": hist,
                          "labels_by_angle_head":
                          np.argsort(np.angle(np.asarray(m.symbols)))[:8]})


# ------------------------------------------------------------------- codes --
def ref_b2g(n):
    return n ^ (n >> 1)


def ref_g2b(g):
    n = 0
    while g:
        n ^= g
        g >>= 1
    return n


def check_codes(ctx, values, form, magcls):
    """values: list of Python ints (< 2^62, n+1 also < 2^62 assumed)."""
    vals = [int(v) for v in values]
    if form in ("pyint", "npscalar"):
        for n in vals:
            if form == "npscalar":
                # an element taken out of an index array: a numpy scalar of that
                # array's dtype (the narrowest of these that holds n + 1)
                fits = [t for t in (np.uint8, np.int16, np.uint16, np.int32, np.uint32, np.int64,
                                    np.uint64) if n + 1 <= np.iinfo(t).max]
                n = fits[(n + len(vals)) % len(fits)](n)
            okc, g = ctx.call("gray-inverse", CV.binary2gray, n, detail={"n": n})
            if not okc:
                continue
            okc, b = ctx.call("gray-inverse", CV.gray2binary, g, detail={"n": n})
            if not okc:
                continue
            ctx.ev("gray-inverse", b == n, cls="g2b(b2g(n))!=n:" + magcls,
                   detail={"n": n, "gray": int(g), "back": int(b), "form": form})
            ctx.ev("gray-value", g == ref_b2g(n), cls="b2g-value",
                   detail={"n": n, "gray": int(g)})
            okc, b2 = ctx.call("gray-inverse2", CV.gray2binary, n, detail={"n": n})
            if okc:
                g2 = CV.binary2gray(b2)
                ctx.ev("gray-inverse2", g2 == n and b2 == ref_g2b(n),
                       cls="b2g(g2b(n))!=n:" + magcls,
                       detail={"n": n, "g2b": int(b2), "ref": ref_g2b(n),
                               "form": form})
            g1 = CV.binary2gray(type(n)(int(n) + 1))
            ctx.ev("gray-adjacent", (int(g) ^ int(g1)).bit_count() == 1,
                   cls="adjacent", detail={"n": n, "g(n)": int(g), "g(n+1)": int(g1)})
        ctx.sig("codes", form, magcls)
        return
    dtype = {"int64": np.int64, "int32": np.int32, "0d": np.int64,
             "2d-int64": np.int64, "uint32": np.uint32, "int16": np.int16,
             "int8": np.int8, "uint8": np.uint8, "uint16": np.uint16,
             "uint64": np.uint64}[form]
    lim = np.iinfo(dtype).max
    vals = [v for v in vals if v + 1 <= lim]
    if not vals:
        return
    arr = np.array(vals, dtype=dtype)
    if form == "0d":
        arr = np.array(vals[0], dtype=dtype)
    elif form == "2d-int64":
        k = len(vals) - len(vals) % 2
        if k == 0:
            return
        arr = arr[:k].reshape(2, -1)
    d = lambda: {"form": form, "values_head": np.asarray(arr).ravel()[:5],
                 "mag": magcls}
    okc, g = ctx.call("gray-inverse", CV.binary2gray, arr, detail=d)
    if not okc:
        return
    okc, b = ctx.call("gray-inverse", CV.gray2binary, g, detail=d)
    if not okc:
        return
    g = np.asarray(g)
    b = np.asarray(b)
    n = int(arr.size)
    same = b.shape == arr.shape and np.array_equal(b, arr)
    ctx.ev("gray-inverse", same, cls="g2b(b2g(n))!=n:" + magcls, n=n,
           detail=lambda: {**d(), "first_bad": int(np.asarray(arr).ravel()[
               np.flatnonzero(b.ravel() != np.asarray(arr).ravel())[0]])
               if b.shape == arr.shape else "shape"})
    refg = np.array([ref_b2g(int(v)) for v in np.asarray(arr).ravel()],
                    dtype=object)
    ctx.ev("gray-value", g.shape == arr.shape and
           all(int(x) == y for x, y in zip(g.ravel(), refg)),
           cls="b2g-value", n=n, detail=d)
    okc, b2 = ctx.call("gray-inverse2", CV.gray2binary, arr, detail=d)
    if okc:
        b2 = np.asarray(b2)
        refb = [ref_g2b(int(v)) for v in np.asarray(arr).ravel()]
        ctx.ev("gray-inverse2", b2.shape == arr.shape and
               all(int(x) == y for x, y in zip(b2.ravel(), refb)),
               cls="b2g(g2b(n))!=n:" + magcls, n=n, detail=d)
    g1 = np.asarray(CV.binary2gray(arr + 1))
    x = [int(a) ^ int(b) for a, b in zip(g.ravel(), g1.ravel())]
    ctx.ev("gray-adjacent", all(v.bit_count() == 1 for v in x), cls="adjacent",
           n=n, detail=d)
    ctx.sig("codes", form, magcls)


FORMS = ["pyint", "int64", "int32", "0d", "2d-int64", "int16", "int8", "uint8",
         "uint16", "uint32", "uint64", "npscalar"]


def case_codes_exhaustive(ctx, rng, idx):
    """Exhaustive: the 1024 integers [1024*idx, 1024*idx+1023], idx < 65
    (covers 0..2^16+1023), as int64 array and (subset) the other forms."""
    lo = idx * 1024
    vals = list(range(lo, lo + 1024))
    check_codes(ctx, vals, "int64", "<2^17")
    check_codes(ctx, vals, "int32", "<2^17")
    check_codes(ctx, vals[:64] + vals[-64:], "pyint", "<2^17")
    check_codes(ctx, vals[:1], "0d", "<2^17")
    check_codes(ctx, vals, "2d-int64", "<2^17")
    for f in ("int16", "int8", "uint8", "uint16", "uint32", "uint64"):
        check_codes(ctx, vals, f, "<2^17")


def case_codes_pow2(ctx, rng, idx):
    """2^k - 1, 2^k, 2^k + 1 for k = idx (1..61) in every form."""
    k = idx + 1
    vals = [v for v in (2 ** k - 1, 2 ** k, 2 ** k + 1) if 0 <= v < 2 ** 62 - 1]
    mag = "2^%d" % (8 * (k // 8))
    for form in FORMS:
        check_codes(ctx, vals, form, mag)
    ctx.sample("codes-pow2", {"values": vals})


def case_codes_random(ctx, rng, idx):
    bits = int(rng.integers(1, 63))
    n = 64 if ctx.tier == "quick" else 256
    vals = [int(v) for v in rng.integers(0, 2 ** bits - 1, size=n, dtype=np.int64,
                                         endpoint=False)] if bits > 1 else [0, 1]
    vals = [min(v, 2 ** 62 - 2) for v in vals]
    mag = "2^%d" % (8 * (bits // 8))
    form = FORMS[idx % len(FORMS)]
    check_codes(ctx, vals[:16] if form in ("pyint", "npscalar") else vals, form, mag)
    if idx % 4 == 1 and form not in ("pyint", "0d", "npscalar"):
        # arrays that merely LOOK like arange(L) from their two ends: symbol
        # indexes of a block that happens to start with 0 and end with L-1
        L = int(rng.integers(3, 65))
        mid = [int(v) for v in rng.integers(0, min(2 ** bits, 64), size=L - 2)]
        if rng.random() < 0.4:
            mid = [int(v) for v in rng.permutation(np.arange(1, L - 1))]   # a permutation of 0..L-1
        check_codes(ctx, [0] + mid + [L - 1], form, "ends-like-arange")
    ctx.sample("codes-random", {"bits": bits, "form": form, "values_head": vals[:4]})


# --------------------------------------------------------------- biterrors --
def case_biterrors(ctx, rng, idx):
    bits = int(rng.choice([1, 2, 3, 8, 12, 16, 31, 32, 33, 48, 62]))
    dtype = np.int32 if bits < 31 and rng.random() < 0.3 else np.int64
    kind = ["0d", "1d", "2d", "3d", "pyint", "1d-empty", "1d-long"][idx % 7]
    shape = {"0d": (), "1d": (int(rng.integers(1, 50)),),
             "1d-long": (int(rng.integers(60000, 140000)),),
             "2d": (int(rng.integers(1, 6)), int(rng.integers(1, 8))),
             "3d": (int(rng.integers(1, 4)), int(rng.integers(1, 4)),
                    int(rng.integers(1, 5))),
             "pyint": (), "1d-empty": (0,)}[kind]
    a = rng.integers(0, 2 ** bits, size=shape, dtype=np.int64).astype(dtype)
    b = rng.integers(0, 2 ** bits, size=shape, dtype=np.int64).astype(dtype)
    if rng.random() < 0.2 and a.size:
        b = a.copy()            # no errors at all
    if kind != "pyint" and rng.random() < 0.3:
        # index arrays of different widths: one operand in the narrowest dtype
        # that holds ITS values, the other stays 64-bit with values outside that range
        t = [np.uint8, np.int16, np.uint16, np.int32, np.uint32][int(rng.integers(0, 5))]
        a = (np.asarray(a, dtype=np.int64) % (int(np.iinfo(t).max) + 1)).astype(t)
        dtype = t
        b = np.asarray(b).astype(np.int64)       # keeps all its `bits` bits
        if rng.random() < 0.5:
            a, b = b, a
    elif kind != "pyint" and rng.random() < 0.3:
        # both index arrays in the same narrow dtype (symbol indexes of a small
        # constellation stored compactly): the COUNT may well exceed that dtype
        t = [np.uint8, np.int8, np.uint16, np.int16][int(rng.integers(0, 4))]
        hi = int(np.iinfo(t).max) + 1
        a = (np.asarray(a, dtype=np.int64) % hi).astype(t)
        b = (np.asarray(b, dtype=np.int64) % hi).astype(t)
        dtype = t
    if kind in ("2d", "3d") and rng.random() < 0.4:
        # transposed / Fortran-ordered views (values unchanged, memory order differs)
        if rng.random() < 0.5:
            a, b = np.asfortranarray(a), np.asfortranarray(b)
        else:
            a = np.ascontiguousarray(np.swapaxes(a, 0, -1)).swapaxes(0, -1)
            b = np.ascontiguousarray(np.swapaxes(b, 0, -1)).swapaxes(0, -1)
    if kind == "pyint":
        a, b = int(a), int(b)
    ref_el = popcount_arr(np.bitwise_xor(np.asarray(a, dtype=np.int64),
                                         np.asarray(b, dtype=np.int64)))
    d = lambda: {"kind": kind, "bits": bits, "a": np.asarray(a).ravel()[:6],
                 "b": np.asarray(b).ravel()[:6], "dtype": str(dtype),
                 "dtypes": [str(np.asarray(a).dtype), str(np.asarray(b).dtype)]}
    okc, tot = ctx.call("bit-errors", MISC.count_bit_errors, a, b, detail=d)
    if okc:
        ctx.ev("bit-errors", int(tot) == int(ref_el.sum()), cls="total",
               detail=lambda: {**d(), "got": int(tot), "want": int(ref_el.sum())})
    for ax in range(len(shape)):
        okc, r = ctx.call("bit-errors", MISC.count_bit_errors, a, b, ax, detail=d)
        if okc:
            ctx.ev("bit-errors", np.array_equal(np.asarray(r), ref_el.sum(axis=ax)),
                   cls="axis", detail=lambda: {**d(), "axis": ax, "got": r,
                                               "want": ref_el.sum(axis=ax)})
    if idx % 9 == 4 and kind in ("1d", "2d", "3d"):
        # both index arrays unsigned 64-bit with the top bit in use
        au = rng.integers(0, 2 ** 64, size=shape, dtype=np.uint64)
        bu = rng.integers(0, 2 ** 64, size=shape, dtype=np.uint64)
        want_u = sum((int(x) ^ int(y)).bit_count() for x, y in zip(au.ravel(), bu.ravel()))
        okc, tu = ctx.call("bit-errors", MISC.count_bit_errors, au, bu,
                           detail={"kind": kind, "dtype": "uint64-top-bit"})
        if okc:
            ctx.ev("bit-errors", int(tu) == want_u, cls="total:uint64",
                   detail={"kind": kind, "got": int(tu), "want": want_u,
                           "a": au.ravel()[:3], "b": bu.ravel()[:3]})
    okc, cb = ctx.call("count-bits", MISC.count_bits, a, detail=d)
    if okc:
        ctx.ev("count-bits", np.array_equal(np.asarray(cb),
                                            popcount_arr(np.asarray(a))),
               cls="count_bits", detail=lambda: {**d(), "got": cb})
    ctx.sig("biterrors", kind, bits, str(dtype.__name__))
    ctx.sample("biterrors", d())


# ------------------------------------------------------------- classifier --
def classify(w):
    d = w.get("detail") or {}
    if w["monitor"] == "gray-neighbours":
        if w["cls"] == "QAM:M>=64" and d.get("matches_pinned_table") is True:
            return "C15/qam-gray-M>=64"
        if w["cls"] == "PSK:after-setPhaseOffset" and \
                d.get("natural_order") is True and d.get("M", 0) >= 4:
            return "C15/psk-setphaseoffset-drops-gray"
    return None


NS = len(label_specs("quick"))
GENS = {
    "labels": Gen(case_labels, NS * len(HISTLEN) * 2, NS * len(HISTLEN) * 8,
                  exhaustive=True),
    "codes-exhaustive": Gen(case_codes_exhaustive, 65, 65, exhaustive=True),
    "codes-pow2": Gen(case_codes_pow2, 61, 61, exhaustive=True),
    "codes-random": Gen(case_codes_random, 600, 400000),
    "biterrors": Gen(case_biterrors, 1200, 800000),
}
MIN_EVALS = {"gray-neighbours": 1000, "gray-inverse": 60000,
             "gray-inverse2": 60000, "gray-adjacent": 60000,
             "bit-errors": 1000, "count-bits": 500}
