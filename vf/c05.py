"""C05 -- the Monte Carlo runner runs exactly the requested repetitions per
variation (instrumented subclass + reference model + trace comparison)."""
from __future__ import annotations

import itertools
import os

import numpy as np

from . import core
from .core import Gen

from pyphysim.simulations.runner import SimulationRunner, SkipThisOne
from pyphysim.simulations.results import Result, SimulationResults

ID = "C05"
RULE = ("a runner configuration = 0-3 unpacked parameters of lengths 1-5 (lists "
        "and arrays; in one grid in eight a value is listed twice - lookups then "
        "only fix values listed once) + 0-3 fixed parameters, rep_max in "
        "{1,2,3,7,50}, an early-stop predicate from a small DSL (always / stop "
        "at repetition r / accumulated count >= T / ratio below q / never after "
        "the first) and a SkipThisOne pattern (none, pseudo-random 10-40 %, "
        "bursts, FIRST attempt of a variation, last attempt).  A ProbeRunner "
        "implements only the documented extension points and logs every call; "
        "each successful repetition carries a unique id in an accumulating "
        "Result.  A 40-line reference model predicts the call trace, the ids "
        "merged per variation, repetition and skip counts; results are looked "
        "up by random fixed-value subsets; every runner is simulated twice, and "
        "single-variation mode is run against a scratch folder.  Signature = "
        "(#unpacked, grid shape, rep_max, predicate kind, skip kind, mode); "
        "non-trivial = at least two _run_simulation calls.  Half of the runners "
        "are reconfigured between simulate() calls.  In situ: the repository's "
        "own AWGN simulator class (apps/awgn_modulators) runs unmodified with six "
        "modulators; its two extension points are wrapped to record events and "
        "an offline checker requires the documented loop and exact stored sums.  "
        "Files generator: runners with a results file name are driven through "
        "simulate(i) / simulate() sequences with partial-file deletion on and "
        "off (rep_max also around the 500-repetition save period); the model "
        "tracks which combinations have a complete partial file. A quarter of "
        "the runners have their first simulate() aborted by an exception in "
        "user code and are simulated again; reconfiguration also goes through "
        "params[name] = values; confidence-interval lookups are compared with "
        "the matching combinations. "
        "Half of the file-backed histories use names relative to a fresh working directory (partial-results folder not yet existing, given or default). "
        "Grids read from a config file with a validation spec (unpacked parameters of length 1 included), runners that compute their grid in _on_simulate_start, and the parallel entry point driven through an in-process stand-in for the ipyparallel view (blocking / deferred collection, wait_parallel_simulation() called repeatedly, aborted first run). "
        "The results object of the previous run is held across the next one. "
        "The probe iteration also returns a vector-valued sum from a refilled buffer; a third of the file histories end with set_results_filename(None) and another simulate(). ")
ASSUMPTIONS = ["the do-while behaviour (first repetition unconditional) is the "
               "documented one", "serial simulate() only (ipyparallel absent)"]


class Spec:
    pass


def hash01(*a):
    return (core.sig_hash(a) % 10 ** 6) / 10.0 ** 6


def skip_decision(spec, vidx, attempt, success_so_far):
    """attempt = 0,1,... within the variation (skipped ones included)."""
    k = spec.skip_kind
    if k == "none":
        return False
    if k == "random":
        return hash01(spec.salt, vidx, attempt) < spec.skip_p and attempt < 400
    if k == "burst":
        return (attempt % 7) in (2, 3, 4)
    if k == "first":
        return attempt < spec.first_skips            # the FIRST attempts of every variation
    if k == "last":
        return success_so_far == spec.rep_max - 1 and attempt % 2 == 0 and attempt < 300
    raise ValueError(k)


def keep_going_decision(spec, cnt, ratio, rep):
    k = spec.pred_kind
    if k == "always":
        return True
    if k == "stop-at":
        return rep < spec.pred_arg
    if k == "count":
        return cnt < spec.pred_arg
    if k == "ratio":
        return ratio >= spec.pred_arg
    if k == "never":
        return False
    raise ValueError(k)


def value_fn(spec, vidx, uid):
    return float((vidx * 7 + uid * 3) % 17) / 4.0       # dyadic: exact sums


class ProbeRunner(SimulationRunner):
    def __init__(self, spec, argv=None, default_progressbar=False):
        if argv is not None:
            import sys
            old_argv = sys.argv
            sys.argv = list(argv)
            try:
                super().__init__(read_command_line_args=True)
            finally:
                sys.argv = old_argv
        else:
            super().__init__(read_command_line_args=False)
        if not default_progressbar:
            self.update_progress_function_style = None
        self.spec = spec
        self.rep_max = spec.rep_max
        for name, val in spec.fixed.items():
            self.params.add(name, val)
        for name, val in spec.unpacked.items():
            # late grid: only a placeholder now, the real values are computed in
            # the _on_simulate_start hook (from min/max/step in a real simulator)
            self.params.add(name, list(val)[:1] if getattr(spec, "late_grid", False) else val)
            self.params.set_unpack_parameter(name)
        self.trace = []
        self.kg_log = []
        self.next_uid = 0
        self.attempts = {}
        self.successes = {}

    abort_at = None          # raise RuntimeError in this (global) call, once

    def _run_simulation(self, current_params):
        if self.abort_at is not None and len(self.trace) >= self.abort_at:
            self.abort_at = None
            raise RuntimeError("user code failed")
        vidx = current_params.unpack_index
        key = tuple(repr(current_params[n]) for n in sorted(self.spec.unpacked))
        att = self.attempts.get(vidx, 0)
        self.attempts[vidx] = att + 1
        self.trace.append((vidx, key))
        if skip_decision(self.spec, vidx, att, self.successes.get(vidx, 0)):
            raise SkipThisOne("probe skip")
        self.successes[vidx] = self.successes.get(vidx, 0) + 1
        uid = self.next_uid
        self.next_uid += 1
        sr = SimulationResults()
        r = Result("ids", Result.SUMTYPE, accumulate_values=True)
        r.update(uid)
        sr.add_result(r)
        sr.add_new_result("cnt", Result.SUMTYPE, 1)
        sr.add_new_result("ratio", Result.RATIOTYPE, value_fn(self.spec, vidx, uid), 4)
        sr.add_result(Result.create("last", Result.MISCTYPE, uid, accumulate_values=True))
        # a vector-valued sum reported from a buffer the iteration refills every time
        # (C17 borrows this runner and switches the vector off: the library's own ==
        #  of result objects is only defined for scalar values)
        if not getattr(self.spec, "vector_result", True):
            return sr
        if not hasattr(self, "_vecbuf"):
            self._vecbuf = np.zeros(2, dtype=np.int64)
        self._vecbuf[:] = (uid, 1)
        sr.add_new_result("vec", Result.SUMTYPE, self._vecbuf)
        return sr

    def _keep_going(self, current_params, current_sim_results, current_rep):
        cnt = current_sim_results["cnt"][-1].get_result()
        ratio = current_sim_results["ratio"][-1].get_result()
        ans = keep_going_decision(self.spec, cnt, ratio, current_rep)
        self.kg_log.append((current_params.unpack_index, current_rep, cnt, ans))
        return ans

    def _on_simulate_start(self):
        if getattr(self.spec, "late_grid", False):
            for name, val in self.spec.unpacked.items():
                self.params.add(name, val)
                self.params.set_unpack_parameter(name)

    def _on_simulate_current_params_start(self, current_params):
        # a fresh attempt counter per variation and per simulate() call
        self.attempts[current_params.unpack_index] = 0
        self.successes[current_params.unpack_index] = 0


def model(spec, variations, uid0=0):
    """Reference: expected call trace and per-variation outcome."""
    trace, out = [], []
    uid = uid0
    for vidx, key in variations:
        ids, skipped, attempt, rep = [], 0, 0, 0
        vals = []
        # first repetition: unconditional, retried while skipped
        while True:
            trace.append((vidx, key))
            if skip_decision(spec, vidx, attempt, rep):
                attempt += 1
                skipped += 1
                continue
            attempt += 1
            ids.append(uid)
            vals.append(value_fn(spec, vidx, uid))
            uid += 1
            rep = 1
            break
        while keep_going_decision(spec, len(ids), sum(vals) / (4.0 * len(vals)), rep) and \
                rep < spec.rep_max:
            trace.append((vidx, key))
            if skip_decision(spec, vidx, attempt, rep):
                attempt += 1
                skipped += 1
                continue
            attempt += 1
            ids.append(uid)
            vals.append(value_fn(spec, vidx, uid))
            uid += 1
            rep += 1
        out.append({"ids": ids, "reps": rep, "skipped": skipped,
                    "ratio": sum(vals) / (4.0 * len(vals))})
    return trace, out, uid


def gen_spec(rng):
    s = Spec()
    nun = int(rng.integers(0, 4))
    names = ["zeta", "alpha", "mid"][:nun]
    rng.shuffle(names)
    s.unpacked = {}
    for nm in names:
        n = int(rng.integers(1, 6))
        vals = rng.choice(np.arange(1, 30), size=n, replace=False)
        if n >= 2 and rng.random() < 0.12:
            # the same value listed more than once (the same configuration run
            # several times): each listing is a combination of its own
            vals[int(rng.integers(1, n))] = vals[0]
        if rng.random() < 0.5:
            vals = np.sort(vals)
        kind = rng.random()
        if kind < 0.15:
            # closely spaced / tiny magnitudes (noise variances, tolerances)
            s.unpacked[nm] = vals.astype(float) * float(rng.choice([1e-9, 1e-12, 1e-15]))
        elif kind < 0.4:
            s.unpacked[nm] = vals.astype(float) / 2.0
        elif kind < 0.7:
            s.unpacked[nm] = [int(v) for v in vals]
        else:
            s.unpacked[nm] = vals.astype(np.int64)
    s.fixed = {}
    for i in range(int(rng.integers(0, 4))):
        s.fixed["fix%d" % i] = [3, 2.5, "text", np.array([1, 2, 3])][int(rng.integers(0, 4))]
    s.rep_max = int(rng.choice([1, 2, 3, 7, 50]))
    s.pred_kind = str(rng.choice(["always", "stop-at", "count", "ratio", "never"]))
    s.pred_arg = {"always": None, "stop-at": int(rng.integers(1, 9)),
                  "count": int(rng.integers(1, 12)), "ratio": float(rng.uniform(0.2, 0.9)),
                  "never": None}[s.pred_kind]
    s.skip_kind = str(rng.choice(["none", "none", "random", "burst", "first", "last"]))
    s.skip_p = float(rng.uniform(0.1, 0.4))
    s.first_skips = int(rng.integers(1, 4))
    s.salt = int(rng.integers(0, 10 ** 6))
    s.late_grid = bool(s.unpacked) and rng.random() < 0.15
    return s


def reconfigure(rng, s, runner):
    """The user changes the configuration of an existing runner between two
    simulate() calls: repetition limit, stop rule, skip pattern and the VALUES
    of the unpacked parameters (same names, same grid shape)."""
    import copy
    s2 = copy.copy(s)
    s2.unpacked = {}
    for nm, old in s.unpacked.items():
        n = len(old)
        vals = rng.choice(np.arange(31, 60), size=n, replace=False)
        if rng.random() < 0.5:
            vals = [int(v) for v in vals]
        elif rng.random() < 0.5:
            vals = vals.astype(float) / 4.0
        s2.unpacked[nm] = vals
    if rng.random() < 0.3:          # sometimes only the limit changes
        s2.unpacked = dict(s.unpacked)
    choices = [r for r in (1, 2, 3, 5, 7, 11, 50) if r != s.rep_max]
    s2.rep_max = int(rng.choice(choices))
    s2.pred_kind = str(rng.choice(["always", "always", "stop-at", "count", "ratio"]))
    s2.pred_arg = {"always": None, "stop-at": int(rng.integers(1, 9)),
                   "count": int(rng.integers(1, 12)),
                   "ratio": float(rng.uniform(0.2, 0.9))}[s2.pred_kind]
    s2.salt = int(rng.integers(0, 10 ** 6))
    runner.spec = s2
    runner.rep_max = s2.rep_max
    for nm, val in s2.unpacked.items():
        if rng.random() < 0.5:
            runner.params[nm] = val          # item assignment (the name stays unpacked)
        else:
            runner.params.add(nm, val)
            runner.params.set_unpack_parameter(nm)
    return s2


def spec_tag(s):
    return {"unpacked": {k: np.asarray(v).tolist() for k, v in s.unpacked.items()},
            "fixed": {k: repr(v) for k, v in s.fixed.items()}, "rep_max": s.rep_max,
            "grid_computed_in_on_simulate_start": getattr(s, "late_grid", False),
            "predicate": [s.pred_kind, s.pred_arg],
            "skip": [s.skip_kind, s.skip_p if s.skip_kind == "random" else
                     (s.first_skips if s.skip_kind == "first" else None)]}


def expected_variations(s):
    names = sorted(s.unpacked)
    if not names:
        return [(-1, ())]
    combos = itertools.product(*[list(s.unpacked[n]) for n in names])
    return [(i, tuple(repr(v) for v in c)) for i, c in enumerate(combos)]


def check_run(ctx, runner, s, tag, label, uid0, simulate=None):
    variations = expected_variations(s)
    want_trace, want, uid_end = model(s, variations, uid0)
    ntr = len(runner.trace)
    runner_trace = list(runner.trace)
    try:
        with core.silence_stdout():
            (simulate or runner.simulate)()
    except SkipThisOne as e:
        ctx.ev("call-trace", False, cls="SkipThisOne-propagated:first-attempt"
               if s.skip_kind == "first" else "SkipThisOne-propagated",
               detail={**tag, "run": label, "exc": repr(e)})
        return None
    except Exception as e:
        import traceback
        ctx.ev("call-trace", False, cls="simulate-raised:" + type(e).__name__,
               detail={**tag, "run": label, "tb": traceback.format_exc(limit=-4)})
        return None
    got_trace = runner.trace[ntr:]
    ok = got_trace == want_trace
    ctx.ev("call-trace", ok, cls="order-or-count",
           detail=lambda: {**tag, "run": label, "got_len": len(got_trace),
                           "want_len": len(want_trace),
                           "first_diff": next((i for i, (a, b) in enumerate(
                               zip(got_trace, want_trace)) if a != b), None),
                           "got_head": got_trace[:8], "want_head": want_trace[:8]})
    res = runner.results
    rr = runner.runned_reps
    prev = getattr(runner, "_vf_previous_results", None)
    if prev is not None and prev[0] is not res:
        # the results object of the PREVIOUS run belongs to whoever kept it
        def snap_of(r0):
            return (repr(r0.runned_reps), [[list(x.get_result_accumulated_values())
                                            for x in r0[nm]] for nm in ("ids",)
                                           if nm in r0.get_result_names()])
        ctx.ev("stored-results", snap_of(prev[0]) == prev[1],
               cls="results-of-the-previous-run-changed-by-this-run",
               detail=lambda: {**tag, "run": label, "before": prev[1], "now": snap_of(prev[0])})
    try:
        runner._vf_previous_results = (res, (repr(res.runned_reps), [[
            list(x.get_result_accumulated_values()) for x in res[nm]] for nm in ("ids",)
            if nm in res.get_result_names()]))
    except Exception:               # noqa: BLE001 - malformed results are judged below
        runner._vf_previous_results = None
    ctx.ev("repetition-counts", list(rr) == [w["reps"] for w in want] and
           res.runned_reps == rr, cls="runned_reps",
           detail={**tag, "run": label, "got": list(rr), "want": [w["reps"] for w in want]})
    okc = all(len(res[nm]) == len(want) for nm in ("ids", "cnt", "ratio"))
    ctx.ev("stored-results", okc, cls="one-result-per-variation",
           detail={**tag, "run": label, "got": [len(res[nm]) for nm in ("ids", "cnt", "ratio")]})
    if not okc:
        return uid_end
    for v, w in enumerate(want):
        ids = res["ids"][v].get_result_accumulated_values()
        ctx.ev("stored-results", list(ids) == w["ids"], cls="ids-merged-exactly-once",
               detail=lambda: {**tag, "run": label, "variation": v, "got": list(ids),
                               "want": w["ids"]})
        lastv = list(res["last"][v].get_result_accumulated_values())
        ctx.ev("stored-results", lastv == w["ids"] and res["last"][v].get_result() == w["ids"][-1],
               cls="misc-result-merged", detail=lambda: {**tag, "run": label, "variation": v,
                                                         "got": lastv, "want": w["ids"]})
        ctx.ev("stored-results", res["cnt"][v].get_result() == w["reps"] and
               res["ids"][v].get_result() == sum(w["ids"]) and
               res["ratio"][v].get_result() == w["ratio"] and
               res["ids"][v].num_updates == w["reps"], cls="merged-values",
               detail=lambda: {**tag, "run": label, "variation": v,
                               "cnt": res["cnt"][v].get_result(), "want_reps": w["reps"],
                               "ratio": res["ratio"][v].get_result(), "want_ratio": w["ratio"]})
        if "vec" in res.get_result_names():
            vec = np.asarray(res["vec"][v].get_result())
            ctx.ev("stored-results", vec.shape == (2,) and int(vec[0]) == sum(w["ids"]) and
                   int(vec[1]) == w["reps"], cls="vector-valued-sum",
                   detail=lambda: {**tag, "run": label, "variation": v, "got": vec,
                                   "want": [sum(w["ids"]), w["reps"]]})
        sk = res["num_skipped_reps"][v].get_result() if "num_skipped_reps" in \
            res.get_result_names() else None
        ctx.ev("skip-counts", sk == w["skipped"], cls=s.skip_kind,
               detail={**tag, "run": label, "variation": v, "got": sk, "want": w["skipped"]})
    return uid_end


def check_lookup(ctx, runner, s, tag, rng):
    """Look results up by fixed parameter values."""
    names = sorted(s.unpacked)
    if not names:
        return
    params = runner.results.params
    plist = params.get_unpacked_params_list()
    for _ in range(4):
        k = int(rng.integers(1, len(names) + 1))
        fixed_names = list(rng.choice(names, size=k, replace=False))
        fixed = {n: list(s.unpacked[n])[int(rng.integers(0, len(s.unpacked[n])))]
                 for n in fixed_names}
        if any(list(s.unpacked[n]).count(fixed[n]) > 1 for n in fixed_names):
            # a value listed twice has no single position: the lookup API addresses
            # values by position and is only defined for values listed once
            ctx.tally("lookup-skipped:value-listed-twice")
            continue
        want_idx = [i for i, p in enumerate(plist) if all(p[n] == fixed[n] for n in fixed)]
        d = {**tag, "fixed": {k: repr(v) for k, v in fixed.items()}}
        okc, idx = ctx.call("lookup-by-fixed-values", params.get_pack_indexes, fixed, detail=d)
        if okc:
            ctx.ev("lookup-by-fixed-values", sorted(int(i) for i in np.atleast_1d(idx)) == want_idx,
                   cls="get_pack_indexes", detail={**d, "got": np.atleast_1d(idx), "want": want_idx})
        okc, vals = ctx.call("lookup-by-fixed-values", runner.results.get_result_values_list,
                             "ids", fixed, detail=d)
        if okc:
            want_vals = [runner.results["ids"][i].get_result() for i in want_idx]
            ctx.ev("lookup-by-fixed-values", list(vals) == want_vals,
                   cls="get_result_values_list", detail={**d, "got": vals, "want": want_vals})
        okc, cis = ctx.call("lookup-by-fixed-values",
                            runner.results.get_result_values_confidence_intervals, "ids", 95.0,
                            fixed, cls="confidence-intervals-raised", detail=d)
        if okc:
            want_ci = [runner.results["ids"][i].get_confidence_interval(95.0) for i in want_idx]
            ctx.ev("lookup-by-fixed-values", len(cis) == len(want_ci) and all(
                np.array_equal(np.asarray(a), np.asarray(b), equal_nan=True)
                for a, b in zip(cis, want_ci)), cls="get_result_values_confidence_intervals",
                detail={**d, "got": len(cis), "want": len(want_ci)})
    okc, allv = ctx.call("lookup-by-fixed-values", runner.results.get_result_values_list, "cnt",
                         detail=tag)
    if okc:
        ctx.ev("lookup-by-fixed-values", list(allv) == [r.get_result() for r in
                                                       runner.results["cnt"]],
               cls="no-fixed-values", detail=tag)


def case_runner(ctx, rng, idx):
    s = gen_spec(rng)
    tag = spec_tag(s)
    default_pb = idx % 5 == 2          # the library's default (text) progress bar stays on
    tag = {**tag, "default_progressbar": default_pb}
    okc, runner = ctx.call("call-trace", lambda: ProbeRunner(s, default_progressbar=default_pb),
                           cls="constructor", detail=tag)
    if not okc:
        return
    if rng.random() < 0.3:
        # a parameter that was added (and marked for unpacking) and removed again
        # leaves no trace in the grid
        def add_and_remove():
            runner.params.add("temp", [7, 8, 9])
            runner.params.set_unpack_parameter("temp")
            n_with = runner.params.get_num_unpacked_variations()
            runner.params.remove("temp")
            return n_with
        okc, n_with = ctx.call("call-trace", add_and_remove, cls="params.remove", detail=tag)
        if not okc:
            return
        nvar0 = len(expected_variations(s)) if not getattr(s, "late_grid", False) else 1
        ctx.ev("call-trace", n_with == 3 * nvar0 and
               runner.params.get_num_unpacked_variations() == nvar0 and
               "temp" not in runner.params.unpacked_parameters, cls="params.remove:grid",
               detail={**tag, "with": n_with, "after": runner.params.get_num_unpacked_variations()})
        tag = {**tag, "temp-parameter-added-and-removed": True}
    if idx % 4 == 3:
        # the first simulate() dies in user code after k calls; the user fixes the
        # problem and calls simulate() again on the same runner
        want_trace0, _, _ = model(s, expected_variations(s), 0)
        runner.abort_at = int(rng.integers(0, len(want_trace0)))
        try:
            with core.silence_stdout():
                runner.simulate()
            ctx.tally("abort-not-reached")
        except RuntimeError:
            ctx.tally("aborted-first-simulate")
        except SkipThisOne:
            pass
        runner.abort_at = None
        tag = {**tag, "first-simulate-aborted-after-calls": len(runner.trace)}
    uid = check_run(ctx, runner, s, tag, "first", runner.next_uid)
    if uid is None:
        ctx.sig("runner", len(s.unpacked), s.rep_max, s.pred_kind, s.skip_kind, "aborted")
        return
    check_lookup(ctx, runner, s, tag, rng)
    # a second simulate() on the same object: no carry-over
    uid = check_run(ctx, runner, s, tag, "second", uid)
    if uid is not None and idx % 2 == 0:
        # ... and a third one after the user changed the configuration
        s2 = reconfigure(rng, s, runner)
        tag2 = {**spec_tag(s2), "before-reconfiguration": tag}
        if check_run(ctx, runner, s2, tag2, "reconfigured", uid) is not None:
            check_lookup(ctx, runner, s2, tag2, rng)
            ctx.tally("reconfigured-runs")
    grid = tuple(len(v) for _, v in sorted(s.unpacked.items()))
    if len(runner.trace) >= 2:
        ctx.sig("runner", grid, s.rep_max, s.pred_kind, s.skip_kind, "all")
    ctx.sample("runner", {**tag, "calls": len(runner.trace)})


def case_single(ctx, rng, idx):
    """simulate(index): only that variation runs; a partial file holds it."""
    s = gen_spec(rng)
    while not s.unpacked:
        s = gen_spec(rng)
    tag = spec_tag(s)
    variations = expected_variations(s)
    vsel = int(rng.integers(0, len(variations)))
    if idx % 4 == 1:
        vsel = 0                  # (the index most often used, and a falsy one)
    wd = os.path.join(core.workdir(), "single_%d" % idx)
    os.makedirs(wd, exist_ok=True)
    # a third of the runs go the way the repository's simulators are started:
    # the index comes from the command line and simulate_do_what_i_mean() decides
    via_helper = idx % 3 == 1
    runner = ProbeRunner(s, argv=["prog", "--index", str(vsel)]) if via_helper else ProbeRunner(s)
    runner.set_results_filename(os.path.join(wd, "res_{fix0}" if "fix0" in s.fixed and
                                             not isinstance(s.fixed["fix0"], np.ndarray)
                                             else os.path.join(wd, "res")))
    runner.partial_results_folder = os.path.join(wd, "partial")
    tag = {**tag, "variation": vsel, "via_simulate_do_what_i_mean": via_helper}
    want_trace, want, _ = model(s, [variations[vsel]], 0)
    try:
        if via_helper:
            from pyphysim.simulations import simulationhelpers as SH
            with core.silence_stdout():
                SH.simulate_do_what_i_mean(runner)
        else:
            runner.simulate(vsel if rng.random() < 0.5 else str(vsel))
    except SkipThisOne as e:
        ctx.ev("single-variation", False, cls="SkipThisOne-propagated:first-attempt"
               if s.skip_kind == "first" else "SkipThisOne-propagated",
               detail={**tag, "exc": repr(e)})
        return
    except Exception as e:
        import traceback
        ctx.ev("single-variation", False, cls="simulate-raised:" + type(e).__name__,
               detail={**tag, "tb": traceback.format_exc(limit=-4)})
        return
    ctx.ev("single-variation", runner.trace == want_trace, cls="only-that-variation",
           detail={**tag, "got": runner.trace[:6], "want": want_trace[:6]})
    ctx.ev("single-variation", runner.runned_reps == want[0]["reps"], cls="runned_reps",
           detail={**tag, "got": runner.runned_reps, "want": want[0]["reps"]})
    files = sorted(os.path.join(dp, f) for dp, _, fs in os.walk(wd) for f in fs
                   if "_unpack_" in f)
    ctx.ev("single-variation", len(files) == 1, cls="one-partial-file",
           detail={**tag, "files": files})
    if len(files) == 1:
        okc, part = ctx.call("single-variation", SimulationResults.load_from_file,
                             files[0], detail=tag)
        if okc:
            ids = part["ids"][-1].get_result_accumulated_values()
            ctx.ev("single-variation", list(ids) == want[0]["ids"] and
                   part.current_rep == want[0]["reps"] and
                   part.params.unpack_index == variations[vsel][0],
                   cls="partial-file-content",
                   detail={**tag, "ids": list(ids), "want": want[0]["ids"],
                           "current_rep": part.current_rep})
    ctx.sample("single", tag)
    ctx.sig("single", len(s.unpacked), s.rep_max, s.pred_kind, s.skip_kind)
    # another index on the same runner, after the user changed the values
    if len(variations) < 2 or idx % 2:
        return
    uid0 = runner.next_uid
    s2 = reconfigure(rng, s, runner)
    variations2 = expected_variations(s2)
    vsel2 = int(rng.choice([v for v in range(len(variations2)) if v != vsel]))
    tag2 = {**spec_tag(s2), "variation": vsel2, "before-reconfiguration": tag}
    want_trace, want, _ = model(s2, [variations2[vsel2]], uid0)
    n0 = len(runner.trace)
    try:
        runner.simulate(vsel2)
    except SkipThisOne as e:
        ctx.ev("single-variation", False, cls="SkipThisOne-propagated", detail={**tag2, "exc": repr(e)})
        return
    except Exception as e:
        import traceback
        ctx.ev("single-variation", False, cls="simulate-raised:" + type(e).__name__,
               detail={**tag2, "tb": traceback.format_exc(limit=-4)})
        return
    ctx.ev("single-variation", runner.trace[n0:] == want_trace, cls="only-that-variation:reconfigured",
           detail={**tag2, "got": runner.trace[n0:n0 + 6], "want": want_trace[:6]})
    ctx.ev("single-variation", runner.runned_reps == want[0]["reps"], cls="runned_reps:reconfigured",
           detail={**tag2, "got": runner.runned_reps, "want": want[0]["reps"]})
    files2 = sorted(os.path.join(dp, f) for dp, _, fs in os.walk(wd) for f in fs
                    if "_unpack_" in f and os.path.join(dp, f) not in files)
    ctx.ev("single-variation", len(files2) == 1, cls="one-partial-file:reconfigured",
           detail={**tag2, "files": files2})
    if len(files2) == 1:
        okc, part = ctx.call("single-variation", SimulationResults.load_from_file,
                             files2[0], detail=tag2)
        if okc:
            ids = part["ids"][-1].get_result_accumulated_values()
            key = tuple(repr(part.params[n]) for n in sorted(s2.unpacked))
            ctx.ev("single-variation", list(ids) == want[0]["ids"] and
                   part.current_rep == want[0]["reps"] and
                   part.params.unpack_index == variations2[vsel2][0] and
                   key == variations2[vsel2][1],
                   cls="partial-file-content:reconfigured",
                   detail={**tag2, "ids": list(ids), "want": want[0]["ids"],
                           "current_rep": part.current_rep, "key": key,
                           "want_key": variations2[vsel2][1]})
    ctx.tally("reconfigured-single-runs")


def case_files(ctx, rng, idx):
    """A runner WITH a results file name, simulated repeatedly: which
    combinations run again depends only on which complete partial files are on
    disk (all deleted after a finished simulate() when deletion is on, all kept
    otherwise)."""
    s = gen_spec(rng)
    while not s.unpacked:
        s = gen_spec(rng)
    s.skip_kind = "none" if rng.random() < 0.6 else s.skip_kind
    if rng.random() < 0.2:
        s.rep_max = int(rng.choice([500, 501, 1003]))       # the periodic save registers the file too
        s.pred_kind, s.pred_arg = "always", None
        s.skip_kind = "none"
        s.unpacked = {k: list(v)[:2] for k, v in list(s.unpacked.items())[:1]}
    variations = expected_variations(s)
    nvar = len(variations)
    delete = bool(rng.integers(0, 2))
    wd = os.path.join(core.workdir(), "files_%d" % idx)
    import shutil
    shutil.rmtree(wd, ignore_errors=True)
    os.makedirs(wd)
    # names relative to a fresh working directory (the usual way: the folder for
    # the partial results does not exist yet), or absolute names
    relative = idx % 2 == 0
    cwd0 = os.getcwd()
    if relative:
        os.chdir(wd)
    try:
        _files_body(ctx, rng, idx, s, variations, nvar, delete, wd, relative)
    finally:
        os.chdir(cwd0)
        shutil.rmtree(wd, ignore_errors=True)


def _files_body(ctx, rng, idx, s, variations, nvar, delete, wd, relative):
    import shutil
    runner = ProbeRunner(s)
    if relative:
        runner.set_results_filename("res")
        if rng.random() < 0.5:
            runner.partial_results_folder = "partial"      # (else the default folder)
    else:
        runner.set_results_filename(os.path.join(wd, "res"))
        runner.partial_results_folder = os.path.join(wd, "partial")
    runner.delete_partial_results_bool = delete
    tag = {**spec_tag(s), "delete_partial_results": delete, "relative_names": relative,
           "partial_results_folder": runner.partial_results_folder}
    disk = {}                      # variation index -> outcome dict of the model
    ops = []
    nops = int(rng.integers(2, 5))
    for step in range(nops):
        single = rng.random() < 0.35 and step < nops - 1
        n0 = len(runner.trace)
        if single:
            v = int(rng.integers(0, nvar))
            ops.append("simulate(%d)" % v)
            todo = [variations[v]] if v not in disk else []
        else:
            ops.append("simulate()")
            todo = [variations[v] for v in range(nvar) if v not in disk]
        want_trace, want, uid_end = model(s, todo, runner.next_uid)
        d = lambda **e: (lambda: {**tag, "ops": list(ops), "on_disk_before": sorted(disk), **e})
        try:
            runner.simulate(v) if single else runner.simulate()
        except SkipThisOne as e:
            ctx.ev("call-trace", False, cls="files:SkipThisOne-propagated", detail=d(exc=repr(e)))
            return
        except Exception as e:
            import traceback
            ctx.ev("call-trace", False, cls="files:simulate-raised:" + type(e).__name__,
                   detail=d(tb=traceback.format_exc(limit=-4)))
            return
        got_trace = runner.trace[n0:]
        ctx.ev("call-trace", got_trace == want_trace, cls="files:order-or-count",
               detail=d(got_len=len(got_trace), want_len=len(want_trace),
                        got_head=got_trace[:6], want_head=want_trace[:6]))
        for (vi, _), w in zip(todo, want):
            disk[vi] = w
        if got_trace != want_trace:
            return
        if not single:
            res = runner.results
            okc = all(len(res[nm]) == nvar for nm in ("ids", "cnt"))
            ctx.ev("stored-results", okc, cls="files:one-result-per-variation",
                   detail=d(got=[len(res[nm]) for nm in ("ids", "cnt")]))
            if okc:
                for vi in range(nvar):
                    w = disk[vi]
                    ids = list(res["ids"][vi].get_result_accumulated_values())
                    ctx.ev("stored-results", ids == w["ids"] and
                           res["cnt"][vi].get_result() == w["reps"],
                           cls="files:ids-merged-exactly-once",
                           detail=d(variation=vi, got=ids[:12], want=w["ids"][:12]))
                ctx.ev("repetition-counts", list(runner.runned_reps) == [disk[vi]["reps"]
                                                                         for vi in range(nvar)],
                       cls="files:runned_reps", detail=d(got=list(runner.runned_reps)))
            if delete:
                left = [f for dp, _, fs in os.walk(wd) for f in fs if "_unpack_" in f]
                ctx.ev("stored-results", not left, cls="files:partial-files-left-behind",
                       detail=d(files=left))
                disk = {}
        ctx.sample("files", {**tag, "ops": list(ops)})
        ctx.sig("files", delete, single, len(disk) == nvar, s.rep_max >= 500, step)
    if idx % 3 == 0:
        # the user switches file storage off again: the next simulate() has nothing
        # to do with what is on disk and runs every combination afresh
        runner.set_results_filename(None)
        n0 = len(runner.trace)
        want_trace, want, _ = model(s, variations, runner.next_uid)
        try:
            runner.simulate()
        except Exception as e:          # noqa: BLE001
            ctx.ev("call-trace", False, cls="files:after-filename=None:raised:" + type(e).__name__,
                   detail={**tag, "ops": list(ops)})
            return
        ctx.ev("call-trace", runner.trace[n0:] == want_trace,
               cls="files:after-filename=None:order-or-count",
               detail={**tag, "ops": list(ops), "got_len": len(runner.trace) - n0,
                       "want_len": len(want_trace)})
    shutil.rmtree(wd, ignore_errors=True)


def case_app(ctx, rng, idx):
    """In situ: the repository's own AWGN simulators (apps/awgn_modulators) run
    unmodified; only their two extension points are wrapped to record events.
    The recorded history must be the documented loop, and the stored results the
    exact sums of what the repetitions returned."""
    import sys
    import importlib
    from pyphysim.modulators import fundamental as FU
    mname, mk = [("PSK(4)", lambda: FU.PSK(4)), ("QAM(16)", lambda: FU.QAM(16)),
                 ("BPSK", FU.BPSK), ("PSK(8)", lambda: FU.PSK(8)), ("QAM(64)", lambda: FU.QAM(64)),
                 ("QPSK", FU.QPSK)][idx % 6]
    clsname = "VerySimplePskSimulationRunner[%s]" % mname
    argv = sys.argv
    sys.argv = [argv[0]]
    try:
        # (simulate_qam.py / simulate_bpsk.py only swap the modulator of this class;
        #  simulate_qam.py itself needs pylab's namespace, so the swap is done here)
        mod = importlib.import_module("apps.awgn_modulators.simulate_psk")
        okc, r = ctx.call("in-situ-history", mod.VerySimplePskSimulationRunner,
                          cls="constructor", detail={"app": clsname})
        if okc:
            r.modulator = mk()
    finally:
        sys.argv = argv
    if not okc:
        return
    r.update_progress_function_style = None
    r.NSymbs = int(rng.integers(5, 80))
    r.rep_max = int(rng.choice([1, 2, 5, 20, 60]))
    snr = rng.choice(np.arange(-5, 25), size=int(rng.integers(1, 6)), replace=False)
    snr = snr.astype(float) if rng.random() < 0.5 else snr
    r.params.add("SNR", snr)
    r.params.set_unpack_parameter("SNR")
    r.max_bit_errors = float(rng.uniform(0.002, 0.3)) * r.NSymbs * r.rep_max
    np.random.seed(int(rng.integers(0, 2 ** 31)))
    tag = {"app": clsname, "NSymbs": r.NSymbs, "rep_max": r.rep_max, "SNR": snr,
           "max_bit_errors": r.max_bit_errors}
    events = []
    orun, okg = r._run_simulation, r._keep_going

    def run(cp):
        sr = orun(cp)
        events.append(("run", cp.unpack_index, float(cp["SNR"]),
                       int(sr["bit_errors"][-1].get_result()), int(sr["num_bits"][-1].get_result()),
                       int(sr["symbol_errors"][-1].get_result()),
                       int(sr["num_symbols"][-1].get_result())))
        return sr

    def kg(cp, res, rep):
        a = okg(cp, res, rep)
        events.append(("kg", cp.unpack_index, int(rep), int(res["bit_errors"][-1].get_result()),
                       bool(a)))
        return a
    r._run_simulation, r._keep_going = run, kg
    okc, _ = ctx.call("in-situ-history", r.simulate, cls="simulate", detail=tag)
    if not okc:
        return
    names = sorted([float(x) for x in snr]) if False else [float(x) for x in snr]
    byvar = {}
    order = []
    for e in events:
        if e[1] not in byvar:
            order.append(e[1])
        byvar.setdefault(e[1], []).append(e)
    ctx.ev("in-situ-history", order == list(range(len(snr))), cls="variation-order",
           detail={**tag, "order": order})
    res = r.results
    for v in range(len(snr)):
        ev = byvar.get(v, [])
        runs, ok, why = 0, True, None
        cum = [0, 0, 0, 0]
        expect = "run"
        for e in ev:
            if e[0] != expect and not (expect == "done"):
                ok, why = False, "expected %s got %s after %d runs" % (expect, e[0], runs)
                break
            if expect == "done":
                ok, why = False, "events after the loop ended"
                break
            if e[0] == "run":
                if e[2] != names[v]:
                    ok, why = False, "SNR %r for variation %d" % (e[2], v)
                    break
                runs += 1
                cum = [cum[i] + e[3 + i] for i in range(4)]
                expect = "kg"
            else:
                if e[2] != runs or e[3] != cum[0] or e[4] != (cum[0] < r.max_bit_errors):
                    ok, why = False, "keep_going saw rep=%d errors=%d answer=%s, history says " \
                        "rep=%d errors=%d" % (e[2], e[3], e[4], runs, cum[0])
                    break
                expect = "run" if (e[4] and runs < r.rep_max) else "done"
        if ok and expect != "done":
            ok, why = False, "loop left open (%s pending)" % expect
        ctx.ev("in-situ-history", ok, cls="documented-loop",
               detail=lambda: {**tag, "variation": v, "why": why, "events": ev[:12]})
        if not ok or len(res["ber"]) <= v:
            continue
        got = (res["bit_errors"][v].get_result(), res["num_bits"][v].get_result(),
               res["symbol_errors"][v].get_result(), res["num_symbols"][v].get_result(),
               res["ber"][v].get_result(), res["ser"][v].get_result(), r.runned_reps[v])
        want = (cum[0], cum[1], cum[2], cum[3], cum[0] / cum[1], cum[2] / cum[3], runs)
        ctx.ev("in-situ-history", got == want, cls="stored-sums",
               detail=lambda: {**tag, "variation": v, "got": got, "want": want})
        okc, vals = ctx.call("in-situ-history", res.get_result_values_list, "ber",
                             {"SNR": snr[v]}, cls="lookup", detail=tag)
        if okc:
            ctx.ev("in-situ-history", list(vals) == [want[4]], cls="lookup",
                   detail={**tag, "variation": v, "got": vals, "want": want[4]})
    ctx.sample("app", {**tag, "events_head": events[:8]})
    ctx.sig("app", clsname, len(snr), r.rep_max, tuple(min(len(byvar.get(v, [])) // 2, 3)
                                                      for v in range(len(snr))))


def classify(w):
    return None


class ConfigRunner(SimulationRunner):
    """A runner whose grid comes from a configuration file (the way the apps/
    simulators are normally configured)."""

    def __init__(self, config_file, spec_lines, names, rep_max):
        super().__init__(default_config_file=config_file, config_spec=spec_lines,
                         read_command_line_args=False)
        self.update_progress_function_style = None
        self.rep_max = rep_max
        self.names = names
        self.calls = []

    def _run_simulation(self, current_params):
        vals = tuple(current_params[n] for n in self.names)
        self.calls.append((current_params.unpack_index, vals, current_params["scale"]))
        sr = SimulationResults()
        sr.add_new_result("cnt", Result.SUMTYPE, 1)
        sr.add_new_result("tag", Result.SUMTYPE, float(np.sum([np.sum(v) for v in vals])))
        return sr


def case_config(ctx, rng, idx):
    """The grid is read from a config file with a validation spec; parameters
    named in its `unpacked_parameters` option are unpacked -- also those with
    a single value."""
    import itertools
    import shutil
    wd = os.path.join(core.workdir(), "config_%d" % idx)
    shutil.rmtree(wd, ignore_errors=True)
    os.makedirs(wd)
    names_all = ["zeta", "alpha", "mid"]
    nun = int(rng.integers(1, 4))
    names = sorted(names_all[:nun])
    grid = {}
    for nm in names_all:
        n = 1 if rng.random() < 0.35 else int(rng.integers(2, 5))
        vals = rng.choice(np.arange(1, 30), size=n, replace=False)
        if nm == "mid":
            grid[nm] = [int(v) for v in vals]                   # integer_numpy_array
        else:
            grid[nm] = [float(v) / 2.0 for v in vals]            # real_numpy_array
    scale = float(rng.integers(1, 9)) / 4.0
    rep_max = int(rng.choice([1, 2, 3]))
    spec_lines = ["zeta=real_numpy_array(default=15)", "alpha=real_numpy_array(default=4)",
                  "mid=integer_numpy_array(default=4)", "scale=float(default=1.0)",
                  "unpacked_parameters=string_list(default=list('zeta'))"]
    cfg = "".join("%s=%s\n" % (nm, ",".join(repr(v) for v in grid[nm])) for nm in names_all)
    cfg += "scale=%r\nunpacked_parameters=%s\n" % (scale, ",".join(names) + ("," if nun == 1 else ""))
    path = os.path.join(wd, "config.txt")
    with open(path, "w") as f:
        f.write(cfg)
    tag = {"config": cfg, "unpacked": names, "rep_max": rep_max}
    cwd0 = os.getcwd()
    os.chdir(wd)
    try:
        okc, runner = ctx.call("call-trace", ConfigRunner, path, spec_lines, names, rep_max,
                               cls="config:constructor", detail=tag)
        if not okc:
            return
        ctx.ev("call-trace", sorted(runner.params.unpacked_parameters) == names,
               cls="config:unpacked-parameters", detail={**tag, "got": runner.params.unpacked_parameters})
        try:
            with core.silence_stdout():
                runner.simulate()
        except Exception as e:              # noqa: BLE001
            import traceback
            ctx.ev("call-trace", False, cls="config:simulate-raised:" + type(e).__name__,
                   detail={**tag, "tb": traceback.format_exc(limit=-4)})
            return
    finally:
        os.chdir(cwd0)
        shutil.rmtree(wd, ignore_errors=True)
    combos = list(itertools.product(*[grid[nm] for nm in names]))
    want = [(vi, tuple(float(x) for x in c)) for vi, c in enumerate(combos) for _ in range(rep_max)]
    got = []
    scalar_ok = True
    for vi, vals, sc in runner.calls:
        scalar_ok = scalar_ok and all(np.ndim(v) == 0 for v in vals) and float(sc) == scale
        got.append((vi, tuple(float(np.sum(v)) for v in vals)))
    ctx.ev("call-trace", scalar_ok, cls="config:iteration-receives-the-value-of-the-combination",
           detail={**tag, "first_call": repr(runner.calls[:1])})
    ctx.ev("call-trace", got == want, cls="config:order-or-count",
           detail={**tag, "got_len": len(got), "want_len": len(want), "got_head": got[:4],
                   "want_head": want[:4]})
    ctx.ev("repetition-counts", list(runner.runned_reps) == [rep_max] * len(combos),
           cls="config:runned_reps", detail={**tag, "got": list(runner.runned_reps)})
    res = runner.results
    okr = len(res["cnt"]) == len(combos)
    ctx.ev("stored-results", okr and all(res["cnt"][i].get_result() == rep_max and
                                         abs(res["tag"][i].get_result() - rep_max * sum(combos[i]))
                                         <= 1e-9 for i in range(len(combos))),
           cls="config:merge-of-the-repetitions", detail=tag)
    # lookup by a fixed value of one unpacked parameter
    if okr and len(names) >= 1:
        nm = names[int(rng.integers(0, len(names)))]
        v = grid[nm][int(rng.integers(0, len(grid[nm])))]
        wantv = [rep_max for c in combos if c[names.index(nm)] == v]
        okc, vals = ctx.call("lookup-by-fixed-values", res.get_result_values_list, "cnt",
                             {nm: v}, cls="config:raised", detail={**tag, "fixed": {nm: v}})
        if okc:
            ctx.ev("lookup-by-fixed-values", list(vals) == wantv, cls="config:get_result_values_list",
                   detail={**tag, "fixed": {nm: v}, "got": list(vals), "want": wantv})
    ctx.sig("config", tuple(len(grid[nm]) for nm in names), rep_max)
    ctx.sample("config", tag)


class _AsyncOutcome:
    """What an ipyparallel view hands back: errors of the engines surface when
    the results are collected."""

    def __init__(self, outcomes, error):
        self.outcomes, self.error = outcomes, error

    def wait(self, timeout=None):
        return None

    def get(self, timeout=None):
        if self.error is not None:
            raise self.error
        return list(self.outcomes)


class InProcessView:
    """Stand-in for an ipyparallel view (ipyparallel is not installed here):
    `map(func, *sequences, block=False)` runs the tasks one after the other in
    this process; the first error stops the rest and is reported by get()."""

    def map(self, func, *sequences, **kwargs):
        outcomes, error = [], None
        for args in zip(*sequences):
            try:
                outcomes.append(func(*args))
            except SkipThisOne:
                raise
            except Exception as e:            # noqa: BLE001 - reported at get()
                error = e
                break
        return _AsyncOutcome(outcomes, error)


def case_parallel(ctx, rng, idx):
    """The parallel entry point (simulate_in_parallel / wait_parallel_simulation)
    driven through an in-process stand-in for the ipyparallel view: the same
    law as the serial path -- every combination, exactly the requested
    repetitions, nothing carried over between runs, results collected once
    however often wait_parallel_simulation() is called."""
    s = gen_spec(rng)
    s.late_grid = False
    tag = {**spec_tag(s), "entry": "simulate_in_parallel(in-process view)"}
    okc, runner = ctx.call("call-trace", lambda: ProbeRunner(s), cls="constructor", detail=tag)
    if not okc:
        return
    view = InProcessView()

    def blocking():
        runner.simulate_in_parallel(view)

    def deferred():
        runner.simulate_in_parallel(view, wait=False)
        runner.wait_parallel_simulation()
        for _ in range(int(rng.integers(0, 3))):
            runner.wait_parallel_simulation()      # documented as harmless
    if idx % 3 == 1:
        # the first run dies in user code; the error surfaces when the results
        # are collected; the user fixes the problem and starts again
        want_trace0, _, _ = model(s, expected_variations(s), 0)
        runner.abort_at = int(rng.integers(0, len(want_trace0)))
        try:
            with core.silence_stdout():
                (blocking if rng.random() < 0.5 else deferred)()
            ctx.tally("abort-not-reached")
        except RuntimeError:
            ctx.tally("aborted-first-parallel-run")
        except SkipThisOne:
            pass
        runner.abort_at = None
        tag = {**tag, "first-run-aborted-after-calls": len(runner.trace)}
    uid = check_run(ctx, runner, s, tag, "parallel:first", runner.next_uid,
                    simulate=blocking if idx % 2 else deferred)
    if uid is None:
        return
    check_lookup(ctx, runner, s, tag, rng)
    uid = check_run(ctx, runner, s, tag, "parallel:second", uid,
                    simulate=deferred if idx % 2 else blocking)
    if uid is not None and idx % 4 == 0:
        uid = check_run(ctx, runner, s, tag, "serial-after-parallel", uid)
    if uid is not None and idx % 2 == 0:
        s2 = reconfigure(rng, s, runner)
        tag2 = {**spec_tag(s2), "before-reconfiguration": tag,
                "entry": "simulate_in_parallel(in-process view)"}
        check_run(ctx, runner, s2, tag2, "parallel:reconfigured", uid, simulate=blocking)
    grid = tuple(len(v) for _, v in sorted(s.unpacked.items()))
    ctx.sig("parallel", grid, s.rep_max, s.pred_kind, s.skip_kind)
    ctx.sample("parallel", {**tag, "calls": len(runner.trace)})


GENS = {
    "runner": Gen(case_runner, 2500, 300000),
    "single": Gen(case_single, 600, 80000),
    "app": Gen(case_app, 90, 9000),
    "files": Gen(case_files, 250, 25000),
    "config": Gen(case_config, 120, 12000),
    "parallel": Gen(case_parallel, 250, 30000),
}
MIN_EVALS = {"call-trace": 1500, "stored-results": 5000, "repetition-counts": 1500,
             "skip-counts": 3000, "lookup-by-fixed-values": 2000, "single-variation": 500,
             "in-situ-history": 300}
