"""C13 -- path-loss and antenna-gain models: monotone, invertible, unit
consistent, also after any sequence of parameter changes."""
from __future__ import annotations

import math
import warnings

import numpy as np

from .core import Gen

from pyphysim.channels import pathloss as PL
from pyphysim.channels import antennagain as AG

warnings.filterwarnings("ignore")

ID = "C13"
RULE = ("(model, parameters, small-distance policy, setter history of 0-10 "
        "valid/invalid assignments) x distance inputs {python float, numpy "
        "scalar, sorted ramp, random 1-D, 2-D, 3-D arrays} spanning 6+ decades "
        "and straddling the too-small region; every array result is compared "
        "element-wise with scalar queries on a FRESH object built from the "
        "final parameters (reference model), plus monotonicity, linear value, "
        "inverse queries, Friis and closed-form anchors.  Antennas: 3/6 "
        "sectors and omni, scalar and array angles in [-180,180] incl. the "
        "floor angle +- delta.  Signature = (model, policy, history kinds, "
        "input form, has-small-distance); non-trivial = at least one distance "
        "decided.  "
        "Queries include exact zero distances (scalar and inside arrays). "
        "Integer angle arrays also as int16 / int8 / uint8; half of the second queries repeat the distances of the first after the setters. "
        "Another object of the same class is configured between two queries of the model under test. "
        "With shadowing on, the clamp policy and the (0,1] range are judged; the inverse of the indoor model is also asked with a wall count. ")
ASSUMPTIONS = ["shadowing is off (use_shadow_bool False) for every value comparison: it is random by design; with it on, only the clamp policy and the range of the linear value are judged",
               "Okumura-Hata distances may leave [1,20] km (the model only warns)"]

AREAS = ['open', 'suburban', 'medium city', 'large city']


# -- model construction from a parameter dict (used for object and twin) -----
def make(kind, p, handle):
    if kind == "general":
        m = PL.PathLossGeneral(p["n"], p["C"])
    elif kind == "freespace":
        m = PL.PathLossFreeSpace(p["n"], p["fc"])
    elif kind == "3gpp":
        m = PL.PathLoss3GPP1()
    elif kind == "metis":
        m = PL.PathLossMetisPS7(p["fc"])
    elif kind == "hata":
        m = PL.PathLossOkomuraHata()
        m.fc, m.hbs, m.hms, m.area_type = p["fc"], p["hbs"], p["hms"], p["area"]
    else:
        raise ValueError(kind)
    m.handle_small_distances_bool = handle
    return m


def initial_params(kind, rng):
    if kind == "general":
        return {"n": float(rng.uniform(1.5, 6)), "C": float(rng.uniform(20, 150))}
    if kind == "freespace":
        return {"n": 2.0 if rng.random() < 0.5 else float(rng.uniform(2, 5)),
                "fc": float(10.0 ** rng.uniform(2, 3.8))}
    if kind == "metis":
        return {"fc": float(10.0 ** rng.uniform(2.5, 4))}
    if kind == "hata":
        return {"fc": float(rng.uniform(150, 1500)), "hbs": float(rng.uniform(30, 200)),
                "hms": float(rng.uniform(1, 10)), "area": str(rng.choice(AREAS))}
    return {}


def apply_history(ctx, kind, m, p, rng, nops):
    """Random setter calls on the live object; `p` tracks the parameters a
    correct object must now have.  Returns the list of op kinds."""
    kinds = []
    for _ in range(nops):
        if kind == "freespace":
            if rng.random() < 0.5:
                v = 2.0 if rng.random() < 0.4 else float(rng.uniform(2, 5))
                m.n = v
                p["n"] = v
                kinds.append("n=")
            else:
                v = float(10.0 ** rng.uniform(2, 3.8))
                m.fc = v
                p["fc"] = v
                kinds.append("fc=")
        elif kind == "metis":
            v = float(10.0 ** rng.uniform(2.5, 4))
            m.fc = v
            p["fc"] = v
            kinds.append("fc=")
        elif kind == "hata":
            which = str(rng.choice(["fc", "hbs", "hms", "area"]))
            invalid = rng.random() < 0.25
            if which == "fc":
                v = float(rng.choice([100.0, 1600.0, 149.999])) if invalid else \
                    float(rng.choice([rng.uniform(150, 1500), 150.0, 1500.0]))     # limits included
            elif which == "hbs":
                v = float(rng.choice([29.0, 201.0])) if invalid else \
                    float(rng.choice([rng.uniform(30, 200), 30.0, 200.0]))
            elif which == "hms":
                v = float(rng.choice([0.5, 10.5])) if invalid else \
                    float(rng.choice([rng.uniform(1, 10), 1.0, 10.0]))
            else:
                v = "moon" if invalid else str(rng.choice(AREAS))
            attr = {"fc": "fc", "hbs": "hbs", "hms": "hms", "area": "area_type"}[which]
            try:
                setattr(m, attr, v)
                raised = False
            except RuntimeError:
                raised = True
            except Exception as e:
                raised = True
                ctx.ev("setter-validation", False, cls="wrong-exception",
                       detail={"attr": attr, "value": v, "exc": repr(e)})
            ctx.ev("setter-validation", raised == invalid,
                   cls="invalid-accepted" if invalid else "valid-rejected",
                   detail={"attr": attr, "value": v, "raised": raised})
            if not invalid:
                p[which] = v
            kinds.append(attr + ("=!" if invalid else "="))
        else:
            break
    if rng.random() < 0.25:
        # the curve is drawn on a caller-supplied axis in between: a read-only
        # use of the model, its configuration must be what it was
        class _Ax:
            def plot(self, *a, **k):
                self.calls = getattr(self, "calls", 0) + 1
        d = np.array([5.0, 20.0]) if kind == "metis" else np.array([1.0, 5.0])
        before = (m.handle_small_distances_bool, m.use_shadow_bool)
        ax = _Ax()
        try:
            m.plot_deterministic_path_loss_in_dB(d, ax)
            ctx.ev("setter-validation", (m.handle_small_distances_bool, m.use_shadow_bool) == before
                   and getattr(ax, "calls", 0) == 1, cls="plot-changed-the-configuration",
                   detail={"model": kind, "before": before,
                           "after": (m.handle_small_distances_bool, m.use_shadow_bool)})
        except Exception as e:
            ctx.ev("setter-validation", False, cls="plot-raised:" + type(e).__name__,
                   detail={"model": kind, "exc": repr(e)})
        kinds.append("plot")
    return kinds


def small_threshold(twin, kw, lo=1e-12, hi=1e6):
    """Largest distance (to 1e-9 relative) at which the FRESH twin with the
    raise policy refuses a scalar query; None if it never refuses."""
    def refuses(d):
        try:
            twin.calc_path_loss_dB(d, **kw)
            return False
        except RuntimeError:
            return True
    if not refuses(lo):
        return None
    for _ in range(200):
        mid = math.sqrt(lo * hi)
        if refuses(mid):
            lo = mid
        else:
            hi = mid
        if hi / lo < 1 + 1e-9:
            break
    return lo


def gen_distances(rng, form, d0, kind):
    """Distances in the model's unit; d0 = too-small threshold (or None)."""
    if kind == "hata" and rng.random() < 0.6:
        lo, hi = 1.0, 20.0
    elif kind == "metis":
        lo, hi = 1e-3, 1e3
    else:
        lo, hi = 1e-4, 1e2
    with_small = d0 is not None and rng.random() < 0.5
    if with_small:
        lo = min(lo, d0 * 10.0 ** rng.uniform(-3, -0.01))
    elif d0 is not None:
        lo = max(lo, d0 * (1 + 1e-6))
        hi = max(hi, lo * 10)
    n = {"pyfloat": 1, "npscalar": 1, "ramp": int(rng.integers(2, 40)),
         "1d": int(rng.integers(1, 40)), "2d": 12, "3d": 24, "1xN": 9}[form]
    d = 10.0 ** rng.uniform(math.log10(lo), math.log10(hi), n)
    if with_small and d0 is not None and n > 1:
        d[rng.integers(0, n)] = d0 * 10.0 ** rng.uniform(-3, -0.01)   # force one
        if rng.random() < 0.5:
            d[rng.integers(0, n)] = d0 * (1 + 10.0 ** rng.uniform(-6, 0))
    if with_small and rng.random() < 0.3:
        # the smallest distance there is: a user on top of the base station
        d[rng.integers(0, n)] = 0.0
    if form == "pyfloat":
        return float(d[0])
    if form == "npscalar":
        return np.float64(d[0])
    if form == "ramp":
        return np.sort(d)
    if form == "2d":
        return d.reshape(3, 4)
    if form == "3d":
        return d.reshape(2, 3, 4)
    if form == "1xN":
        return d.reshape(1, 9)
    return d


FORMS = ["pyfloat", "npscalar", "ramp", "1d", "2d", "3d", "1xN"]
KINDS = ["general", "freespace", "3gpp", "metis", "hata"]


def check_model(ctx, kind, m, twin_raise, p, handle, D, kw, hist, form):
    tag = {"model": kind, "params": dict(p), "handle_small": handle,
           "history": hist, "form": form, "kw": {k: np.asarray(v).tolist() for k, v in kw.items()}}
    d = lambda **e: (lambda: {**tag, "d": np.asarray(D).ravel()[:8], **e})
    Darr = np.asarray(D, dtype=float)
    flat = Darr.ravel()
    walls = kw.get("num_walls")
    walls_flat = None
    if walls is not None and isinstance(walls, np.ndarray):
        walls_flat = np.broadcast_to(walls, Darr.shape).ravel()
    # reference: scalar queries on the fresh twin (raise policy)
    want = np.empty(flat.size)
    small = np.zeros(flat.size, dtype=bool)
    for i, di in enumerate(flat):
        kwi = dict(kw)
        if walls_flat is not None:
            kwi["num_walls"] = int(walls_flat[i])
        if di <= 0.0:            # too small for every model, by definition
            want[i] = 0.0
            small[i] = True
            continue
        try:
            want[i] = float(twin_raise.calc_path_loss_dB(float(di), **kwi))
        except RuntimeError:
            want[i] = 0.0
            small[i] = True
    any_small = bool(small.any())
    Din = D.copy() if isinstance(D, np.ndarray) else D
    try:
        res = m.calc_path_loss_dB(Din, **kw)
        raised = None
        if isinstance(res, np.ndarray):
            ctx.hold("values-vs-fresh-scalar", "calc_path_loss_dB", res)
    except RuntimeError as e:
        raised = e
    except Exception as e:
        ctx.ev("values-vs-fresh-scalar", False, cls="exception:" + type(e).__name__,
               detail=d(exc=repr(e)))
        return
    if isinstance(D, np.ndarray):
        ctx.ev("args-not-mutated", np.array_equal(Din, D), cls="calc_path_loss_dB",
               detail=d())
    if not handle:
        ctx.ev("small-distance-policy", (raised is not None) == any_small,
               cls="raise-policy", detail=d(raised=repr(raised), any_small=any_small))
        if raised is not None or any_small:
            ctx.sig(kind, handle, tuple(sorted(set(hist))), form, "small")
            return
    else:
        ctx.ev("small-distance-policy", raised is None, cls="clamp-policy-raised",
               detail=d(raised=repr(raised)))
        if raised is not None:
            return
    r = np.asarray(res, dtype=float)
    ctx.ev("output-shape", r.shape == Darr.shape, detail=d(out=r.shape, inp=Darr.shape))
    if r.shape != Darr.shape:
        return
    rf = r.ravel()
    ok = np.abs(rf - want) <= 1e-9 + 1e-12 * np.abs(want)
    bad = np.flatnonzero(~ok)
    ctx.ev("values-vs-fresh-scalar", bad.size == 0, n=flat.size,
           cls="clamped-element" if bad.size and small[bad[0]] else
           ("element-sharing-array-with-small" if any_small else "value"),
           detail=d(index=lambda: int(bad[0]), got=lambda: rf[bad[0]],
                    want=lambda: want[bad[0]], d_i=lambda: flat[bad[0]]))
    if handle and any_small:
        ctx.ev("small-distance-policy", bool(np.all(rf[small] == 0.0)), cls="clamp-to-0dB",
               detail=d(got=rf[small][:4]))
    # monotone in distance (per wall count)
    groups = [np.arange(flat.size)] if walls_flat is None else \
        [np.flatnonzero(walls_flat == w) for w in np.unique(walls_flat)]
    for g in groups:
        if g.size > 1:
            o = g[np.argsort(flat[g], kind="stable")]
            inc = np.diff(rf[o])
            ctx.ev("monotone-in-distance", bool(np.all(inc >= -1e-9)), n=g.size - 1,
                   detail=d(sorted_d=flat[o][:6], pl=rf[o][:6]))
    # linear value
    okc, lin = ctx.call("linear-value", m.calc_path_loss, D, detail=d(), **kw)
    if okc:
        lf = np.asarray(lin, dtype=float).ravel()
        wl = 10.0 ** (-rf / 10.0)
        ctx.ev("linear-value", lf.shape == wl.shape and
               bool(np.all(np.abs(lf - wl) <= 1e-12 * wl)) and
               bool(np.all((lf > 0) & (lf <= 1.0))), n=flat.size,
               detail=d(lin=lf[:4], want=wl[:4]))
    # inverse, where offered
    if kind in ("general", "freespace", "3gpp"):
        pos = rf > 0
        if pos.any():
            okc, back = ctx.call("inverse-distance", m.which_distance_dB, r, detail=d())
            if okc:
                bf = np.asarray(back, dtype=float).ravel()
                ctx.ev("inverse-distance",
                       bool(np.all(np.abs(bf[pos] / flat[pos] - 1) <= 1e-10)),
                       n=int(pos.sum()), cls="dB", detail=d(back=bf[:4]))
            if okc and np.all(rf < 2800):
                okc, back = ctx.call("inverse-distance", m.which_distance, lin, detail=d())
                if okc:
                    bf = np.asarray(back, dtype=float).ravel()
                    ctx.ev("inverse-distance",
                           bool(np.all(np.abs(bf[pos] / flat[pos] - 1) <= 1e-9)),
                           n=int(pos.sum()), cls="linear", detail=d(back=bf[:4]))
    else:
        # models that do not offer an inverse say so (NotImplementedError or no
        # value at all); should one start answering, the answer must be exact
        pos = rf > 0
        scalar_walls = isinstance(kw.get("num_walls"), int)
        if pos.any() and (not kw or scalar_walls):
            try:
                back = m.which_distance_dB(r, **kw)
            except (NotImplementedError, TypeError):      # (TypeError: no such argument)
                back = None
            except Exception as e:       # noqa: BLE001
                ctx.ev("inverse-distance", False, cls="not-offered:raised-%s" % type(e).__name__,
                       detail=d(exc=repr(e)))
                back = None
            if back is None:
                ctx.ev("inverse-distance", True, cls="not-offered")
            else:
                bf = np.asarray(back, dtype=float).ravel()
                ctx.ev("inverse-distance", bf.shape == flat.shape and
                       bool(np.all(np.abs(bf[pos] / flat[pos] - 1) <= 1e-9)),
                       n=int(pos.sum()), cls="dB:%s" % kind, detail=d(back=bf[:4]))
    if kind in ("general", "freespace", "3gpp"):
        pos = rf > 0
        # closed-form anchors
        if kind == "freespace":
            n_, C_ = p["n"], 10 * p["n"] * (math.log10(p["fc"] * 1e6) - 4.377911390697565)
        elif kind == "3gpp":
            n_, C_ = 3.76, 128.1
        else:
            n_, C_ = p["n"], p["C"]
        cf = 10 * n_ * np.log10(flat) + C_
        ctx.ev("closed-form-anchor",
               bool(np.all(np.abs(rf[pos] - cf[pos]) <= 1e-9 * (1 + np.abs(cf[pos])))),
               n=int(pos.sum()), cls=kind, detail=d(got=rf[:4], want=cf[:4]))
        if kind == "freespace" and p["n"] == 2.0 and pos.any():
            friis = 20 * np.log10(flat) + 20 * math.log10(p["fc"]) + 32.44
            ctx.ev("friis-anchor", bool(np.all(np.abs(rf[pos] - friis[pos]) <= 0.01)),
                   n=int(pos.sum()), detail=d(got=rf[:4], friis=friis[:4]))
    ctx.sig(kind, handle, tuple(sorted(set(hist))), form, any_small)


def case_model(ctx, rng, idx):
    kind = KINDS[idx % len(KINDS)]
    form = FORMS[(idx // len(KINDS)) % len(FORMS)]
    handle = bool((idx // (len(KINDS) * len(FORMS))) % 2)
    p = initial_params(kind, rng)
    okc, m = ctx.call("values-vs-fresh-scalar", make, kind, dict(p), handle,
                      detail={"model": kind, "params": p})
    if not okc:
        return
    nops = int(rng.choice([0, 0, 1, 2, 3, 5, 10]))
    hist = apply_history(ctx, kind, m, p, rng, nops)
    # interleave queries and setters: query, more setters, query again
    D_first = None
    for rnd in range(2):
        twin = make(kind, dict(p), False)
        kw = {}
        walls_kind = None
        if kind == "metis":
            walls_kind = str(rng.choice(["none", "int", "array"]))
            if walls_kind == "int" or (walls_kind == "array" and form in ("pyfloat", "npscalar")):
                kw = {"num_walls": int(rng.integers(0, 6))}
            elif walls_kind == "array":
                kw = {"num_walls": None}      # filled below, needs the shape
        d0 = small_threshold(twin, {k: v for k, v in kw.items() if v is not None}
                             if kind != "metis" or walls_kind != "array" else {})
        D = gen_distances(rng, form, d0, kind)
        if rnd == 1 and D_first is not None and rng.random() < 0.5:
            # the same distances as before the last setters (per-link queries
            # repeat the same few distances over a whole simulation)
            D = D_first.copy() if isinstance(D_first, np.ndarray) else D_first
            hist = hist + ["same-distances-again"]
        if rnd == 0:
            D_first = D.copy() if isinstance(D, np.ndarray) else D
        if kw.get("num_walls", 0) is None:
            shp = np.shape(D)
            if len(shp) >= 2 and rng.random() < 0.6:
                # wall counts given in a broadcastable shape: per row, per
                # column or for the trailing axes only
                alt = [shp[:-1] + (1,), (1,) * (len(shp) - 1) + shp[-1:], shp[1:]]
                shp = alt[int(rng.integers(0, len(alt)))]
            kw["num_walls"] = rng.integers(0, 4, size=shp)
        check_model(ctx, kind, m, twin, p, handle, D, kw, hist, form)
        if rnd == 0:
            more = apply_history(ctx, kind, m, p, rng, int(rng.integers(0, 3)))
            hist = hist + more
            if rng.random() < 0.3:                # the policy flag may be flipped too
                handle = not handle
                m.handle_small_distances_bool = handle
                hist = hist + ["handle="]
    # with log-normal shadowing switched on the loss is random, but the policy for
    # too-small distances and the range of the linear value still hold
    try:
        tw = make(kind, dict(p), True)
        tw.use_shadow_bool = True
        d0s = small_threshold(make(kind, dict(p), False), {}) or 0.0
        Ds = d0s * 10.0 ** rng.uniform(-0.5, 1.5, size=24) if d0s > 0 else \
            10.0 ** rng.uniform(-3, 0, size=24)
        if kind == "hata":
            Ds = np.maximum(Ds, 1e-3)
        np.random.seed(int(rng.integers(0, 2 ** 31)))
        rs = np.asarray(tw.calc_path_loss_dB(Ds.copy()), dtype=float)
        ls = np.asarray(tw.calc_path_loss(Ds.copy()), dtype=float)
        ctx.ev("small-distance-policy", bool(np.all(rs >= 0)) and bool(np.all((ls > 0) & (ls <= 1))),
               cls="clamp-policy:with-shadowing",
               detail={"model": kind, "params": p, "min_dB": float(rs.min()),
                       "max_linear": float(ls.max())})
    except RuntimeError:
        ctx.tally("shadowing-check:query-refused")
    # another model object of the same class, configured and re-configured in
    # between two queries of THIS one, must not change what this one answers
    try:
        dq = np.array([0.05, 0.4, 1.7, 9.0]) if kind != "metis" else np.array([3.0, 20.0, 75.0])
        m.handle_small_distances_bool = True
        before = np.array(m.calc_path_loss_dB(dq.copy()), dtype=float, copy=True)
        p2 = initial_params(kind, rng)
        other = make(kind, dict(p2), True)
        apply_history(ctx, kind, other, p2, rng, int(rng.integers(1, 4)))
        after = np.array(m.calc_path_loss_dB(dq.copy()), dtype=float, copy=True)
        ctx.ev("values-vs-fresh-scalar", np.array_equal(before, after),
               cls="changed-by-configuring-another-object",
               detail={"model": kind, "params": p, "other_params": p2, "before": before,
                       "after": after})
    except RuntimeError:
        ctx.tally("other-object-check:query-refused")
    ctx.sample(kind, {"model": kind, "final_params": p, "history": hist,
                      "form": form, "d_head": np.asarray(D).ravel()[:3]})


# -- antenna gain --------------------------------------------------------------
NORM = {3: (70.0, 20.0, 14.0), 6: (35.0, 23.0, 17.0)}


def case_antenna(ctx, rng, idx):
    kind = [3, 6, "omni"][idx % 3]
    form = ["pyfloat", "npscalar", "1d", "2d", "grid"][(idx // 3) % 5]
    if kind == "omni":
        g_db = None if rng.random() < 0.3 else float(rng.uniform(-3, 20))
        a = AG.AntGainOmni(g_db)
        want_lin = 1.0 if g_db is None else 10.0 ** (g_db / 10)
    else:
        a = AG.AntGainBS3GPP25996(kind)
        th3, Am, gdb = NORM[kind]
        floor_angle = th3 * math.sqrt(Am / 12.0)
    if form == "grid":
        ang = np.linspace(-180, 180, 721)
    elif form in ("1d", "2d"):
        ang = rng.uniform(-180, 180, 24)
        if kind != "omni":
            ang[:6] = floor_angle * np.array([1, -1, 1, -1, 1, -1]) * \
                (1 + np.array([1e-9, 1e-9, -1e-9, -1e-9, 1e-3, -1e-3]))
            ang[6] = 0.0
            ang[7:9] = [180.0, -180.0]
        if form == "2d":
            ang = ang.reshape(4, 6)
        if rng.random() < 0.3:
            # whole degrees, in whatever integer type the caller stores them
            # (narrow types: int8 holds +-127 degrees, uint8 only the positive side)
            t = [np.int64, np.int32, np.int16, np.int8, np.uint8][int(rng.integers(0, 5))]
            ang = np.rint(ang)
            if t is np.int8:
                ang = np.clip(ang, -127, 127)
            elif t is np.uint8:
                ang = np.abs(ang)
            ang = ang.astype(t)
    else:
        v = float(rng.uniform(-180, 180))
        if kind != "omni" and rng.random() < 0.5:
            v = float(rng.choice([-1, 1]) * rng.uniform(floor_angle * 0.9, 180))
        ang = v if form == "pyfloat" else np.float64(v)
    tag = {"antenna": kind, "form": form}
    d = lambda **e: (lambda: {**tag, "angles": np.asarray(ang).ravel()[:6], **e})
    before = ang.copy() if isinstance(ang, np.ndarray) else ang
    okc, g = ctx.call("antenna-gain", a.get_antenna_gain, ang, detail=d())
    if not okc:
        return
    if isinstance(ang, np.ndarray):
        ctx.ev("args-not-mutated", np.array_equal(before, ang), cls="get_antenna_gain",
               detail=d())
    gf = np.asarray(g, dtype=float)
    af = np.asarray(ang, dtype=float)
    ctx.ev("output-shape", gf.shape == af.shape, detail=d(out=gf.shape))
    if gf.shape != af.shape:
        return
    gf, af = gf.ravel(), af.ravel()
    if kind == "omni":
        ctx.ev("antenna-gain", bool(np.all(np.abs(gf - want_lin) <= 1e-12 * want_lin)),
               cls="omni-constant", n=af.size, detail=d(got=gf[:3], want=want_lin))
        ctx.sig("omni", form, g_db is None)
        return
    gain0 = float(np.asarray(a.get_antenna_gain(0.0)))
    peak = 10.0 ** (gdb / 10)
    floor = peak * 10.0 ** (-Am / 10)
    want = peak * 10.0 ** (-np.minimum(12 * (af / th3) ** 2, Am) / 10)
    ctx.ev("antenna-gain", abs(gain0 - peak) <= 1e-12 * peak, cls="boresight-gain",
           detail=d(gain0=gain0, peak=peak))
    ctx.ev("antenna-gain", bool(np.all(gf <= gain0 * (1 + 1e-12))), cls="peaks-at-boresight",
           n=af.size, detail=d(max=gf.max(), gain0=gain0))
    ctx.ev("antenna-gain", bool(np.all(gf >= floor * (1 - 1e-12))), cls="floored",
           n=af.size, detail=d(min=gf.min(), floor=floor))
    beyond = np.abs(af) >= floor_angle * (1 + 1e-12)
    ctx.ev("antenna-gain", bool(np.all(np.abs(gf[beyond] - floor) <= 1e-12 * floor)),
           cls="equals-floor-beyond-floor-angle", n=int(beyond.sum()),
           detail=d(got=gf[beyond][:3], floor=floor))
    ctx.ev("antenna-gain", bool(np.all(np.abs(gf - want) <= 1e-11 * want)), cls="pattern-value",
           n=af.size, detail=d(got=gf[:3], want=want[:3]))
    # symmetry, and scalar == array
    for i in range(min(af.size, 12)):
        gs = float(np.asarray(a.get_antenna_gain(float(af[i]))))
        gm = float(np.asarray(a.get_antenna_gain(float(-af[i]))))
        ctx.ev("antenna-gain", abs(gs - gf[i]) <= 1e-12 * gf[i], cls="scalar-equals-array",
               detail=d(angle=af[i], scalar=gs, array=gf[i]))
        ctx.ev("antenna-gain", abs(gs - gm) <= 1e-12 * gs, cls="symmetric",
               detail=d(angle=af[i], plus=gs, minus=gm))
    if isinstance(ang, np.ndarray) and ang.size > 1:
        # (the mirror image is formed by the harness: unsigned angles are
        #  widened first, -x would wrap)
        neg = -ang.astype(np.int64) if ang.dtype.kind == "u" else -ang
        gneg = np.asarray(a.get_antenna_gain(neg), dtype=float).ravel()
        ctx.ev("antenna-gain", bool(np.all(np.abs(gneg - gf) <= 1e-12 * gf)),
               cls="symmetric-array", n=af.size, detail=d())
    ctx.sig("antenna", kind, form)
    ctx.sample("antenna", {"sectors": kind, "form": form, "angles": af[:4], "gain": gf[:4]})


def case_bad_antenna(ctx, rng, idx):
    n = [0, 1, 2, 4, 5, 7, 12][idx % 7]
    try:
        AG.AntGainBS3GPP25996(n)
        ctx.ev("antenna-gain", False, cls="invalid-sectors-accepted", detail={"n": n})
    except ValueError:
        ctx.ev("antenna-gain", True)
    ctx.sig("bad-antenna", n)


GENS = {
    "model": Gen(case_model, 4200, 2100000),
    "antenna": Gen(case_antenna, 300, 300000),
    "bad-antenna": Gen(case_bad_antenna, 7, 7, exhaustive=True),
}
MIN_EVALS = {"values-vs-fresh-scalar": 5000, "monotone-in-distance": 3000,
             "linear-value": 3000, "inverse-distance": 2000,
             "small-distance-policy": 1000, "friis-anchor": 200,
             "closed-form-anchor": 1000, "setter-validation": 300,
             "antenna-gain": 3000}
