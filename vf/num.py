"""Numeric helpers shared by the oracles (independent of pyphysim)."""
from __future__ import annotations

import numpy as np

EPS = np.finfo(float).eps


def randn_c(rng, *shape):
    return (rng.standard_normal(shape) + 1j * rng.standard_normal(shape)) / np.sqrt(2)


def rand_unitary(rng, n, real=False):
    if real:
        a = rng.standard_normal((n, n))
    else:
        a = rng.standard_normal((n, n)) + 1j * rng.standard_normal((n, n))
    q, r = np.linalg.qr(a)
    d = np.diagonal(r)
    return q * (d / np.abs(d))


def matrix_with_svals(rng, m, n, svals, real=False):
    """m x n matrix with the prescribed singular values (len = min(m, n))."""
    k = min(m, n)
    U = rand_unitary(rng, m, real)[:, :k]
    V = rand_unitary(rng, n, real)[:, :k]
    return (U * np.asarray(svals)) @ V.conj().T


def svals(rng, k, kappa, kind="loguniform"):
    """k singular values in [1/kappa, 1] * scale (largest = scale)."""
    if k == 1:
        return np.array([1.0])
    if kind == "loguniform":
        s = np.exp(rng.uniform(np.log(1.0 / kappa), 0.0, k))
        s[0] = 1.0
        s[-1] = 1.0 / kappa
    elif kind == "equal":
        s = np.ones(k)
    elif kind == "repeated":
        s = np.exp(rng.uniform(np.log(1.0 / kappa), 0.0, k))
        s[rng.integers(0, k)] = s[rng.integers(0, k)]
        s[0] = 1.0
    elif kind == "two-level":
        s = np.where(rng.random(k) < 0.5, 1.0, 1.0 / kappa)
        s[0] = 1.0
    else:
        raise ValueError(kind)
    return np.sort(s)[::-1]


def controlled_matrix(rng, m, n, kappa_max=1e4, real=False, kind="loguniform",
                      scale=1.0):
    """Returns (A, kappa): full-rank m x n matrix with condition number kappa."""
    kappa = float(np.exp(rng.uniform(0.0, np.log(kappa_max))))
    s = svals(rng, min(m, n), kappa, kind) * scale
    A = matrix_with_svals(rng, m, n, s, real)
    return A, float(s[0] / s[-1])


def fro(x):
    return float(np.linalg.norm(np.asarray(x).ravel()))


def herm(x):
    return np.asarray(x).conj().T


def relerr(a, b):
    a = np.asarray(a)
    b = np.asarray(b)
    den = max(fro(a), fro(b), 1e-300)
    return fro(a - b) / den
