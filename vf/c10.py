"""C10 -- interference-alignment solvers return valid, power-limited, aligned
solutions, with no stale derived quantities after the public setters."""
from __future__ import annotations

import math
import warnings

import numpy as np

from .core import Gen
from . import monitors
from .num import EPS, fro, herm

from pyphysim.channels import multiuser as MU
from pyphysim.ia import algorithms as IA

warnings.filterwarnings("ignore")

ID = "C10"
RULE = ("(solver class, K, antennas, streams, scalar|vector power over 3 "
        "decades, initialisation mode, iteration count) -> solve, then a "
        "history of 1-8 public setter operations {P=, set_precoders(F|full_F), "
        "set_receive_filters(W|W_H), randomizeF, solve again}; after the solve "
        "and after EVERY operation the relations among the public properties "
        "(F, full_F, W, W_H, full_W, full_W_H, Ns, P) are evaluated.  Leakage "
        "monotonicity (equal powers, no noise) is observed twice: black box "
        "(repeated one-iteration solves with 'fix' initialisation) and by a "
        "sys.monitoring trace of every iteration inside one solve.  Signature "
        "= (solver, K, Nr, Nt, Ns, init mode, op kinds); non-trivial = the "
        "identity relation was evaluated after at least one operation.  "
        "GreedStreamIASolver / BruteForceStreamIASolver wrap each iterative "
        "solver on 2-3 user channels; afterwards the wrapped solver must satisfy "
        "all relations at the requested power."
        "One stream-search case in eight is an over-loaded request (K=3, 3x3, 2 streams, high SNR) that the greedy wrapper reduces to one stream each before being used again. "
        "Op new-stream-counts installs precoders and filters with other stream counts through the setters. "
        "The stream-count array passed to solve() is re-used by the caller right after the call. ")
ASSUMPTIONS = [
    "identity tolerance 1e3 eps kappa(W_H H_kk full_F); closed-form nulling "
    "1e-9 relative to ||W_H|| ||H_kl|| ||F_l|| times kappa of the channels",
    "leakage increase allowed: 1e-9 relative + 1e-12 of the total unfiltered "
    "interference power at the start",
    "MaxSINR / MMSE only with noise_var > 0; MMSE Lagrange-multiplier "
    "RuntimeError is a documented decline (tallied)"]


def rand_c(rng, *shape):
    return (rng.standard_normal(shape) + 1j * rng.standard_normal(shape)) / math.sqrt(2)


def obj_array(lst):
    a = np.empty(len(lst), dtype=object)
    for i, x in enumerate(lst):
        a[i] = x
    return a


def make_channel(rng, Nr, Nt, noise):
    K = len(Nr)
    H = rand_c(rng, int(np.sum(Nr)), int(np.sum(Nt)))
    mu = MU.MultiUserChannelMatrix()
    mu.init_from_channel_matrix(H, np.array(Nr), np.array(Nt), K)
    mu.noise_var = noise
    cr = np.hstack([0, np.cumsum(Nr)])
    ct = np.hstack([0, np.cumsum(Nt)])
    Hkl = [[H[cr[k]:cr[k + 1], ct[l]:ct[l + 1]] for l in range(K)] for k in range(K)]
    return mu, Hkl


def check_relations(ctx, s, name, Hkl, exact_power, tag, closed_form=False):
    """All relations among the public properties, for the CURRENT state."""
    K = len(Hkl)
    d = lambda **e: (lambda: {**tag, **e})
    try:
        F, fF, W, WH, fW, fWH = s.F, s.full_F, s.W, s.W_H, s.full_W, s.full_W_H
        Ns, P = np.asarray(s.Ns), np.asarray(s.P, dtype=float)
        if P.ndim == 0:
            P = np.full(K, float(P))
    except Exception as e:
        import traceback
        ctx.ev("relations", False, cls="%s:getter-raised-%s" % (name, type(e).__name__),
               detail=d(exc=repr(e), tb=traceback.format_exc(limit=-4)))
        return
    for k in range(K):
        Fk, fFk, WHk, fWHk = (np.asarray(x[k]) for x in (F, fF, WH, fWH))
        Nr_k, Nt_k = Hkl[k][k].shape
        ctx.ev("shapes-and-stream-counts",
               Fk.shape == (Nt_k, Ns[k]) and fFk.shape == Fk.shape and
               WHk.shape == (Ns[k], Nr_k) and fWHk.shape == WHk.shape,
               cls=name, detail=d(user=k, F=Fk.shape, W_H=WHk.shape, full_W_H=fWHk.shape,
                                  Ns=Ns))
        if Fk.shape != (Nt_k, Ns[k]) or WHk.shape != (Ns[k], Nr_k) or fWHk.shape != WHk.shape:
            continue
        ctx.within("unit-norm-precoder", abs(fro(Fk) - 1.0), 64 * EPS * Nt_k, name,
                   d(user=k, norm=fro(Fk)))
        pw = fro(fFk) ** 2
        ctx.ev("power-limit", pw <= P[k] * (1 + 1e-9), cls=name + ":exceeds",
               detail=d(user=k, power=pw, P=P))
        if exact_power:
            # (after a stream reduction F and full_F come from two separate SVDs,
            #  whose singular vectors agree to eps / relative gap, not to 64 eps)
            ctx.within("power-limit", fro(fFk - math.sqrt(P[k]) * Fk), 1e-10 * math.sqrt(P[k]),
                       name + ":full_F!=sqrt(P)F", d(user=k, P=P, power=pw))
        else:
            # MMSE: same direction, power at most P
            ctx.within("power-limit", fro(fFk / max(fro(fFk), 1e-300) - Fk), 1e-9,
                       name + ":full_F-direction", d(user=k))
        Heq = WHk @ Hkl[k][k] @ fFk
        sv = np.linalg.svd(Heq, compute_uv=False)
        kap = sv[0] / sv[-1] if sv[-1] > 0 else float("inf")
        if kap > 1e10:
            ctx.tally("ill-conditioned-equivalent-channel")
        else:
            # the library forms W^H H F itself: when the filter is nearly orthogonal
            # to the precoded channel (arbitrary precoders installed through the
            # setters) the product is small against its factors and its rounding
            # error is amplified by ||W^H|| ||H|| ||F|| / sigma_min
            amp = max(1.0, float(np.linalg.norm(WHk, 2)) * float(np.linalg.norm(Hkl[k][k], 2)) *
                      fro(fFk) / sv[-1])
            ctx.within("identity-equivalent-channel",
                       fro(fWHk @ Hkl[k][k] @ fFk - np.eye(Ns[k])),
                       1e3 * EPS * kap * Ns[k] * amp,
                       name, d(user=k, kappa=kap, amplification=amp,
                               got=fWHk @ Hkl[k][k] @ fFk))
        ctx.ev("hermitian-pairs", np.array_equal(np.asarray(W[k]), herm(WHk)) and
               np.allclose(np.asarray(fW[k]), herm(fWHk), rtol=0, atol=0),
               cls=name, detail=d(user=k))
        if closed_form:
            for l in range(K):
                if l != k:
                    Fl = np.asarray(F[l])
                    lk = fro(WHk @ Hkl[k][l] @ Fl)
                    scale = fro(WHk) * np.linalg.norm(Hkl[k][l], 2) * fro(Fl)
                    ctx.within("closed-form-nulls-interference", lk, 1e-8 * scale, None,
                               d(user=k, interferer=l, leak=lk))


def unfiltered_interference(Hkl, fF):
    K = len(Hkl)
    return sum(fro(Hkl[k][l] @ np.asarray(fF[l])) ** 2
               for k in range(K) for l in range(K) if k != l)


SOLVERS = {"closed": IA.ClosedFormIASolver, "altmin": IA.AlternatingMinIASolver,
           "minleak": IA.MinLeakageIASolver, "maxsinr": IA.MaxSinrIASolver,
           "mmse": IA.MMSEIASolver}


def gen_config(rng, name):
    if name == "closed":
        if rng.random() < 0.5:
            M = int(rng.choice([2, 4, 6]))
            return [M] * 3, [M] * 3, [M // 2] * 3
        # fewer streams than half the antennas: alignment still leaves an
        # interference-free subspace of dimension M - Ns >= Ns
        M = int(rng.integers(3, 7))
        return [M] * 3, [M] * 3, [int(rng.integers(1, M // 2 + 1))] * 3
    K = int(rng.integers(2, 5))
    if rng.random() < 0.6:
        M = int(rng.integers(2, 7))
        Nr, Nt = [M] * K, [M] * K
    else:
        Nr = [int(x) for x in rng.integers(2, 6, size=K)]
        Nt = [int(x) for x in rng.integers(2, 6, size=K)]
    if rng.random() < 0.5:
        ns = int(rng.integers(1, min(min(Nr), min(Nt))))
        Ns = [ns] * K
    else:
        Ns = [int(rng.integers(1, min(Nr[k], Nt[k]))) for k in range(K)]
    if name == "minleak" and rng.random() < 0.6 and min(min(Nr), min(Nt)) >= 3:
        Ns = [2] * K                                  # Ns >= 2 forced often
    return Nr, Nt, Ns


def solve_call(ctx, s, name, Ns, P, tag):
    """solve(); returns 'ok' | 'declined' | 'failed'."""
    try:
        if name == "closed":
            s.solve(int(Ns[0]), P)
        else:
            ns_arg = np.array(Ns) if (len(set(Ns)) > 1 or hash((tuple(Ns), name)) % 3 == 0) \
                else int(Ns[0])
            s.solve(ns_arg, P)
            if isinstance(ns_arg, np.ndarray):
                # the array the caller passed is the caller's: re-used for something
                # else right away, it must not change what the solver reports
                ns_arg += 5
                got_ns = [int(x) for x in np.asarray(s.Ns)]
                fin = [int(np.asarray(f).shape[1]) for f in s.F]
                ctx.ev("shapes-and-stream-counts", got_ns == fin,
                       cls=name + ":Ns-follows-the-caller's-array",
                       detail={**tag, "Ns_reported": got_ns, "precoder_columns": fin})
        # the power the caller asked for is the power of the solution
        K = len(Ns)
        want = np.ones(K) if P is None else np.broadcast_to(np.asarray(P, dtype=float), (K,))
        got = np.asarray(s.P, dtype=float)
        ctx.ev("relations", got.shape == (K,) and bool(np.all(got == want)),
               cls=name + ":P-after-solve", detail={**tag, "requested": want, "solver.P": got})
        return "ok"
    except RuntimeError as e:
        if name == "mmse" and "Lagrange" in str(e):
            ctx.tally("mmse-declines")
            return "declined"
        ctx.ev("solve-completes", False, cls=name + ":RuntimeError",
               detail={**tag, "exc": repr(e)})
        return "failed"
    except Exception as e:
        import traceback
        ctx.ev("solve-completes", False, cls="%s:%s" % (name, type(e).__name__),
               detail={**tag, "exc": repr(e), "tb": traceback.format_exc(limit=-4)})
        return "failed"


OPS = ["P=scalar", "P=vector", "P=None", "set_precoders(F)", "set_precoders(F,P)",
       "set_precoders(full_F)", "set_precoders(full_F,P)", "set_receive_filters(W_H)", "set_receive_filters(W)",
       "randomizeF", "solve-again", "read-all", "new-stream-counts"]


def case_solve(ctx, rng, idx):
    name = list(SOLVERS)[idx % len(SOLVERS)]
    Nr, Nt, Ns = gen_config(rng, name)
    K = len(Nr)
    noise = float(10.0 ** rng.uniform(-4, 0)) if name in ("maxsinr", "mmse") or \
        rng.random() < 0.5 else None
    mu, Hkl = make_channel(rng, Nr, Nt, noise)
    s = SOLVERS[name](mu)
    if hasattr(s, "_rs"):
        s._rs.seed(int(rng.integers(0, 2 ** 31)))
    Pmode = str(rng.choice(["none", "scalar", "vector"]))
    phi = 4 if rng.random() < 0.3 else 2         # powers up to 1e4 (a third of the cases)
    P = None if Pmode == "none" else (float(10.0 ** rng.uniform(-1, phi)) if Pmode == "scalar"
                                      else 10.0 ** rng.uniform(-1, phi, size=K))
    init = "n/a"
    if name != "closed":
        opts = ["random", "svd", "fix"]
        if K == 3 and len(set(Nr + Nt)) == 1 and Nr[0] % 2 == 0 and \
                all(n == Nr[0] // 2 for n in Ns):
            opts.append("closed_form")
        if name != "altmin":
            opts.append("alt_min")
        init = str(rng.choice(opts))
        s.initialize_with = init
        s.max_iterations = int(rng.choice([1, 2, 5, 20, 60]))
        if init == "fix":
            F0 = [rand_c(rng, Nt[k], Ns[k]) for k in range(K)]
            s.set_precoders(F=obj_array([f / fro(f) for f in F0]))
    tag = {"solver": name, "Nr": Nr, "Nt": Nt, "Ns": Ns, "P": P, "noise": noise,
           "init": init, "max_iterations": getattr(s, "max_iterations", None)}
    res = solve_call(ctx, s, name, Ns, P, tag)
    ctx.ev("solve-completes", res != "failed", n=0) if False else None
    if res != "ok":
        if res == "declined":
            ctx.sig(name, "declined")
        return
    ctx.ev("solve-completes", True)
    hist = ["solve"]
    exact = name != "mmse"
    check_relations(ctx, s, name, Hkl, exact, {**tag, "history": list(hist)},
                    closed_form=(name == "closed"))
    nops = int(rng.integers(1, 9))
    for _ in range(nops):
        op = str(rng.choice(OPS))
        cur_Ns = [int(x) for x in np.asarray(s.Ns)]
        try:
            if op == "P=scalar":
                s.P = float(10.0 ** rng.uniform(-1, 2))
            elif op == "P=vector":
                s.P = 10.0 ** rng.uniform(-1, 2, size=K)
            elif op == "P=None":
                s.P = None          # back to the default unit power
            elif op == "set_precoders(F)":
                newF = [rand_c(rng, Nt[k], cur_Ns[k]) for k in range(K)]
                s.set_precoders(F=obj_array([f / fro(f) for f in newF]))
            elif op == "set_precoders(F,P)":
                newF = [rand_c(rng, Nt[k], cur_Ns[k]) for k in range(K)]
                s.set_precoders(F=obj_array([f / fro(f) for f in newF]),
                                P=10.0 ** rng.uniform(-1, 2, size=K))
            elif op == "set_precoders(full_F)":
                # precoders exactly as the getters return them, power included
                Pn = np.asarray(s.P, dtype=float)
                newF = [rand_c(rng, Nt[k], cur_Ns[k]) for k in range(K)]
                s.set_precoders(full_F=obj_array(
                    [f / fro(f) * math.sqrt(Pn[k]) for k, f in enumerate(newF)]))
            elif op == "set_precoders(full_F,P)":
                # power-scaled precoders that use only part of the stated budget
                Pn = 10.0 ** rng.uniform(-1, 2, size=K)
                newF = [rand_c(rng, Nt[k], cur_Ns[k]) for k in range(K)]
                s.set_precoders(full_F=obj_array(
                    [f / fro(f) * math.sqrt(Pn[k] * rng.uniform(0.05, 1.0))
                     for k, f in enumerate(newF)]), P=Pn)
            elif op == "set_receive_filters(W_H)":
                Xh = [rand_c(rng, cur_Ns[k], Nr[k]) for k in range(K)]
                s.set_receive_filters(W_H=obj_array(Xh))
                ctx.ev("hermitian-pairs", all(np.array_equal(np.asarray(s.W_H[k]), Xh[k]) and
                                              np.array_equal(np.asarray(s.W[k]), herm(Xh[k]))
                                              for k in range(K)),
                       cls=name + ":installed-W_H", detail={**tag, "history": hist + [op]})
            elif op == "set_receive_filters(W)":
                Xw = [rand_c(rng, Nr[k], cur_Ns[k]) for k in range(K)]
                s.set_receive_filters(W=obj_array(Xw))
                ctx.ev("hermitian-pairs", all(np.array_equal(np.asarray(s.W[k]), Xw[k]) and
                                              np.array_equal(np.asarray(s.W_H[k]), herm(Xw[k]))
                                              for k in range(K)),
                       cls=name + ":installed-W", detail={**tag, "history": hist + [op]})
            elif op == "new-stream-counts":
                # another solution with OTHER stream counts is installed through
                # the setters (precoders, then the matching receive filters)
                new_Ns = [int(rng.integers(1, min(Nr[k], Nt[k]) + 1)) for k in range(K)]
                newF = [rand_c(rng, Nt[k], new_Ns[k]) for k in range(K)]
                s.set_precoders(F=obj_array([f / fro(f) for f in newF]))
                s.set_receive_filters(W_H=obj_array([rand_c(rng, new_Ns[k], Nr[k])
                                                     for k in range(K)]))
                got_Ns = [int(x) for x in np.asarray(s.Ns)]
                ctx.ev("shapes-and-stream-counts", got_Ns == new_Ns,
                       cls=name + ":Ns-follows-installed-precoders",
                       detail={**tag, "history": hist + [op], "installed": new_Ns, "Ns": got_Ns})
            elif op == "randomizeF":
                s.randomizeF(np.array(cur_Ns), None if rng.random() < 0.5 else
                             10.0 ** rng.uniform(-1, 2, size=K))
            elif op == "solve-again":
                if name != "closed" and rng.random() < 0.5:
                    s.initialize_with = "fix"
                elif name != "closed" and s.initialize_with == "closed_form" and \
                        len(set(cur_Ns)) != 1:
                    # a finalised solve may have dropped a dead stream of one user;
                    # the closed-form initialisation is only defined for equal counts
                    s.initialize_with = "random"
                newP = s.P if rng.random() < 0.4 else (
                    10.0 ** rng.uniform(-1, 2, size=K) if rng.random() < 0.6 else
                    float(10.0 ** rng.uniform(-1, 2)))
                r2 = solve_call(ctx, s, name, cur_Ns, newP,
                                {**tag, "history": hist + [op], "P_of_this_solve": newP})
                if r2 != "ok":
                    return
        except Exception as e:
            import traceback
            ctx.ev("relations", False, cls="%s:%s-raised-%s" % (name, op, type(e).__name__),
                   detail={**tag, "history": hist + [op], "exc": repr(e),
                           "tb": traceback.format_exc(limit=-4)})
            return
        hist.append(op)
        # after an MMSE re-power / re-precoding the scaled precoders are
        # sqrt(P) F again (only a solve gives them less than full power)
        ex = exact or op != "solve-again" and any(
            h in ("P=scalar", "P=vector", "set_precoders(F)", "set_precoders(F,P)",
                  "randomizeF") for h in hist[1:]) and "solve-again" not in hist[-1:]
        last_solve = max(i for i, h in enumerate(hist) if h in ("solve", "solve-again"))
        touched_after = [h for h in hist[last_solve + 1:] if h.startswith(("P=", "set_prec",
                                                                           "randomizeF", "new-stream"))]
        ex = exact or bool(touched_after)
        if "set_precoders(full_F)" in touched_after and not exact:
            ex = False
        if touched_after and touched_after[-1] == "set_precoders(full_F,P)" or (
                "set_precoders(full_F,P)" in touched_after and not any(
                    h in ("set_precoders(F)", "set_precoders(F,P)", "randomizeF", "P=scalar",
                          "P=vector", "P=None", "set_precoders(full_F)", "new-stream-counts")
                    for h in touched_after[touched_after.index("set_precoders(full_F,P)") + 1:])):
            ex = False          # full_F was given below the budget: direction only
        cf = name == "closed" and all(h in ("solve", "solve-again", "read-all", "P=scalar",
                                            "P=vector", "P=None") for h in hist)
        check_relations(ctx, s, name, Hkl, ex, {**tag, "history": list(hist)}, closed_form=cf)
        ctx.sig(name, K, tuple(Nr), tuple(Nt), tuple(Ns), init, hist[-2], op)
    ctx.sample(name, {**tag, "history": hist})


def case_stream_search(ctx, rng, idx):
    """The stream-selecting wrappers (greedy stream reduction, brute force over
    stream combinations) drive an iterative solver repeatedly; whatever they
    settle on, the wrapped solver must be left with a valid solution."""
    name = ["maxsinr", "mmse", "altmin", "minleak", "maxsinr"][int(rng.integers(0, 5))]
    wrapper = "greedy" if rng.random() < 0.55 else "brute-force"
    K = int(rng.integers(2, 4))
    M = int(rng.integers(2, 5)) if wrapper == "greedy" else int(rng.integers(2, 5))
    ns = int(rng.integers(1, M)) if M > 1 else 1
    if wrapper == "brute-force":
        ns = min(ns, 2)                   # (the search is exponential in the stream count)
    weak = idx % 4 == 1
    if weak:
        # the configuration in which the iterative solver itself drops a dead
        # stream of a user with hardly any power, inside the wrapper's search
        name = ["maxsinr", "mmse"][int(rng.integers(0, 2))]
        K, M, ns = 3, int(rng.integers(3, 5)), 2
    if wrapper == "greedy" and not weak and M >= 3 and rng.random() < 0.6:
        ns = int(rng.integers(2, M))                  # room for stream reduction
    allone = idx % 8 == 3
    if allone:
        # an over-loaded request (2 streams each on 3x3, K = 3) at high SNR: the
        # greedy search goes all the way down to one stream per user and stops
        # because nothing is left to drop -- then the same wrapper is used again
        wrapper, K, M, ns = "greedy", 3, 3, 2
    Nr, Nt = [M] * K, [M] * K
    if not weak and not allone and M >= 3 and rng.random() < 0.3:
        # unequal antenna counts (at least ns + 1 everywhere)
        Nr = [int(x) for x in rng.integers(ns + 1, M + 2, size=K)]
        Nt = [int(x) for x in rng.integers(ns + 1, M + 2, size=K)]
    noise = float(10.0 ** rng.uniform(-4, 0)) if not allone else float(10.0 ** rng.uniform(-7, -4))
    mu, Hkl = make_channel(rng, Nr, Nt, noise)
    s = SOLVERS[name](mu)
    if hasattr(s, "_rs"):
        s._rs.seed(int(rng.integers(0, 2 ** 31)))
    s.max_iterations = int(rng.choice([0, 1, 5, 20, 60])) if not (weak or allone) else \
        int(rng.choice([5, 20, 60]))
    P = [None, float(10.0 ** rng.uniform(-1, 2)), 10.0 ** rng.uniform(-1, 2, size=K)][
        int(rng.integers(0, 3))]
    if allone:
        P = [None, float(10.0 ** rng.uniform(0, 2))][int(rng.integers(0, 2))]
    elif weak or (rng.random() < 0.3 and ns >= 2):
        # one user with hardly any power: its weakest stream dies and the solver
        # itself reduces that user's stream count
        P = 10.0 ** rng.uniform(1, 2.5, size=K)
        P[int(rng.integers(0, K))] = 10.0 ** rng.uniform(-5, -3)
        noise = float(10.0 ** rng.uniform(-9, -6))
        mu.noise_var = noise
        ctx.tally("stream-search:weak-user:%s(%s)" % (wrapper, name))
    tag = {"wrapper": wrapper, "solver": name, "K": K, "M": M, "Ns": ns, "P": P, "noise": noise,
           "max_iterations": s.max_iterations}
    w = IA.GreedStreamIASolver(s) if wrapper == "greedy" else IA.BruteForceStreamIASolver(s)
    twice = idx % 3 == 2 or allone   # the wrapper object is used for two searches in a row
    tag["solved_twice"] = twice
    try:
        w.solve(ns, P)
        if twice:
            first_Ns = [int(x) for x in np.asarray(s.Ns)]
            tag["Ns_after_first_search"] = first_Ns
            if wrapper == "greedy" and ns > 1 and all(x == 1 for x in first_Ns):
                ctx.tally("stream-search:greedy-reduced-everyone-to-one-stream-then-reused")
            w.solve(ns, P)
    except RuntimeError as e:
        if name == "mmse" and "Lagrange" in str(e):
            ctx.tally("mmse-declines")
            return
        ctx.ev("solve-completes", False, cls="%s(%s):RuntimeError" % (wrapper, name),
               detail={**tag, "exc": repr(e)})
        return
    except Exception as e:
        import traceback
        ctx.ev("solve-completes", False, cls="%s(%s):%s" % (wrapper, name, type(e).__name__),
               detail={**tag, "exc": repr(e), "tb": traceback.format_exc(limit=-4)})
        return
    ctx.ev("solve-completes", True)
    want_P = np.ones(K) if P is None else np.broadcast_to(np.asarray(P, dtype=float), (K,))
    # (after a restored greedy solution solver.P may be the bare scalar the
    #  caller passed; the property is about its value, not its representation)
    got_P = np.asarray(s.P, dtype=float)
    ctx.ev("relations", got_P.shape in ((K,), ()) and bool(np.all(got_P == want_P)),
           cls="%s(%s):P-after-solve" % (wrapper, name),
           detail={**tag, "requested": want_P, "solver.P": got_P})
    got_Ns = [int(x) for x in np.asarray(s.Ns)]
    ctx.ev("shapes-and-stream-counts", len(got_Ns) == K and all(1 <= x <= ns for x in got_Ns),
           cls="%s:streams-within-request" % wrapper, detail={**tag, "final_Ns": got_Ns})
    check_relations(ctx, s, "%s(%s)" % (wrapper, name), Hkl, False,
                    {**tag, "final_Ns": got_Ns})
    # ... and the solution left behind is an ordinary one: the power can be
    # changed through the public setter afterwards
    if rng.random() < 0.5:
        newP = 10.0 ** rng.uniform(-1, 2, size=K)
        try:
            s.P = newP
        except Exception as e:
            ctx.ev("relations", False, cls="%s(%s):P=-raised-%s" % (wrapper, name, type(e).__name__),
                   detail={**tag, "exc": repr(e)})
            return
        check_relations(ctx, s, "%s(%s)" % (wrapper, name), Hkl, True,
                        {**tag, "final_Ns": got_Ns, "history": ["wrapper.solve", "P=vector"]})
    if any(x < ns for x in got_Ns):
        ctx.tally("stream-search:%s-ended-with-fewer-streams" % wrapper)
    ctx.sample("stream-search", {**tag, "final_Ns": got_Ns})
    ctx.sig(wrapper, name, K, M, ns, tuple(got_Ns), P is None)


# ------------------------------------------------------------- leakage ------
def find_step_codes(cls):
    codes = []
    for c in cls.__mro__:
        f = c.__dict__.get("_step")
        if f is not None and hasattr(f, "__code__"):
            codes.append(f.__code__)
    return codes


def case_leakage(ctx, rng, idx):
    name = ["altmin", "minleak"][idx % 2]
    Nr, Nt, Ns = gen_config(rng, name)
    K = len(Nr)
    mu, Hkl = make_channel(rng, Nr, Nt, None)           # no noise
    P = None if rng.random() < 0.5 else float(10.0 ** rng.uniform(-1, 2))   # equal powers
    tag = {"solver": name, "Nr": Nr, "Nt": Nt, "Ns": Ns, "P": P}
    # ---- (a) black box: repeated single-iteration solves continuing from F
    s = SOLVERS[name](mu)
    if hasattr(s, "_rs"):
        s._rs.seed(int(rng.integers(0, 2 ** 31)))
    F0 = [rand_c(rng, Nt[k], Ns[k]) for k in range(K)]
    F0 = obj_array([f / fro(f) for f in F0])
    s.initialize_with = "fix"
    s.max_iterations = 1
    costs = []
    S = None
    s.set_precoders(F=F0.copy())
    nsteps = int(rng.choice([3, 8, 25]))
    for it in range(nsteps):
        r = solve_call(ctx, s, name, Ns, P, {**tag, "route": "blackbox", "iteration": it})
        if r != "ok":
            return
        if S is None:
            Pv = np.asarray(s.P, dtype=float)
            S = unfiltered_interference(Hkl, [F0[k] * math.sqrt(Pv[k]) for k in range(K)])
        costs.append(float(np.real(s.get_cost())))
    check_monotone(ctx, costs, S, "blackbox:" + name, tag)
    # ---- (b) trace: cost after every iteration inside ONE solve
    s2 = SOLVERS[name](mu)
    s2.initialize_with = "fix"
    s2.max_iterations = nsteps
    s2.relative_factor = 0.0
    s2.set_precoders(F=F0.copy())
    tr = monitors.Trace("vf-c10")
    traced = []
    codes = find_step_codes(type(s2))

    def on_return(code, retval):
        try:
            traced.append(float(np.real(s2.get_cost())))
        except Exception:
            traced.append(float("nan"))
    tr.on_return = on_return
    attached = tr.attach(codes[:1])
    try:
        r = solve_call(ctx, s2, name, Ns, P, {**tag, "route": "trace"})
    finally:
        tr.detach()
    if r != "ok":
        return
    if not attached or not traced:
        ctx.tally("trace-not-attached")
    else:
        check_monotone(ctx, traced, S, "trace:" + name, tag)
        m = min(len(traced), len(costs))
        # the two observation routes see the same process
        agree = all(abs(traced[i] - costs[i]) <= 1e-6 * (abs(costs[i]) + 1e-12 * S)
                    for i in range(m))
        ctx.ev("trace-agrees-with-blackbox", agree, cls=name,
               detail={**tag, "traced": traced[:6], "blackbox": costs[:6]})
    ctx.sig("leakage", name, K, tuple(Nr), tuple(Nt), tuple(Ns), nsteps)
    ctx.sample("leakage:" + name, {**tag, "costs": costs[:6], "S": S})


def check_monotone(ctx, costs, S, cls, tag):
    for i in range(len(costs) - 1):
        inc = costs[i + 1] - costs[i]
        allowed = 1e-9 * abs(costs[i]) + 1e-12 * S
        ctx.stat("leakage-never-increases", inc / allowed if allowed > 0 else 0.0)
        ctx.ev("leakage-never-increases", inc <= allowed, cls=cls,
               detail=lambda: {**tag, "iteration": i, "cost_before": costs[i],
                               "cost_after": costs[i + 1], "S": S, "costs": costs[:10]})


def classify(w):
    return None


GENS = {
    "solve": Gen(case_solve, 350, 70000),
    "leakage": Gen(case_leakage, 120, 24000),
    "stream-search": Gen(case_stream_search, 160, 16000),
}
MIN_EVALS = {"identity-equivalent-channel": 1500, "unit-norm-precoder": 1500,
             "power-limit": 3000, "shapes-and-stream-counts": 1500,
             "closed-form-nulls-interference": 100, "leakage-never-increases": 500,
             "trace-agrees-with-blackbox": 50, "solve-completes": 200,
             "hermitian-pairs": 1500}
