"""python -m vf Cxx [quick|thorough] [--replay file] [--gen name]
(internal: --shard i/n --out file)"""
from __future__ import annotations

import argparse
import importlib
import json
import os
import subprocess
import sys
import time

from . import core


def main() -> int:
    ap = argparse.ArgumentParser()
    ap.add_argument("prop")
    ap.add_argument("tier", nargs="?", default=os.environ.get("VERIF_TIER") or "quick",
                    choices=["quick", "thorough"])
    ap.add_argument("--replay")
    ap.add_argument("--gen")
    ap.add_argument("--shard")
    ap.add_argument("--out")
    ap.add_argument("--workers", type=int,
                    default=int(os.environ.get("VF_WORKERS", "0")))
    a = ap.parse_args()
    seed = int(os.environ.get("VERIF_SEED", "0") or 0)
    t0 = time.time()
    core.setup_paths()
    mod = importlib.import_module("vf.%s" % a.prop.lower())

    if a.replay:
        with open(a.replay) as f:
            w = json.load(f)
        ctx = core.new_ctx(mod, w.get("tier", "quick"), int(w.get("seed", 0)))
        core.run_one(mod, ctx, w["gen"], int(w["case"]))
        print("replayed gen=%s case=%d seed=%d: %d violations, %d evaluations"
              % (w["gen"], w["case"], ctx.seed,
                 sum(ctx.viol_count.values()),
                 sum(ctx.monitor_evals.values())))
        for key, wl in ctx.witnesses.items():
            print("--", key, "x%d" % ctx.viol_count[key])
            print(json.dumps(wl[0]["detail"], indent=1)[:4000])
        for e in ctx.harness_errors:
            print("HARNESS ERROR", e)
        return 1 if ctx.viol_count else (2 if ctx.harness_errors else 0)

    if a.shard:                       # worker of the sharded tier
        i, n = (int(x) for x in a.shard.split("/"))
        ctx = core.new_ctx(mod, a.tier, seed)
        budget = float(os.environ.get("VF_WORKER_BUDGET", "0") or 0)
        deadline = (t0 + budget) if budget else None
        try:
            core.run_cases(mod, ctx, i, n, a.gen, deadline)
        finally:
            core.cleanup_workdir()
        with open(a.out, "w") as f:
            json.dump(ctx.dump(), f)
        return 0

    ctx = core.new_ctx(mod, a.tier, seed)
    dead = []
    nworkers = a.workers or (1 if a.tier == "quick" else
                             min(16, os.cpu_count() or 1))
    if hasattr(mod, "prepare"):
        mod.prepare(ctx)
    if nworkers == 1:
        try:
            core.run_cases(mod, ctx, 0, 1, a.gen)
        finally:
            core.cleanup_workdir()
    else:
        wd = core.workdir()
        timeout = float(os.environ.get("VF_WORKER_TIMEOUT", "5400"))
        env = dict(os.environ)
        env["VF_WORKER_BUDGET"] = str(timeout * 0.9)
        procs = []
        for i in range(nworkers):
            out = os.path.join(wd, "w%d.json" % i)
            cmd = [core.PY, "-B", "-m", "vf", a.prop, a.tier,
                   "--shard", "%d/%d" % (i, nworkers), "--out", out]
            if a.gen:
                cmd += ["--gen", a.gen]
            log = open(os.path.join(wd, "w%d.log" % i), "w")
            procs.append((i, out, log, subprocess.Popen(
                cmd, cwd=core.VERIF, env=env, stdout=log,
                stderr=subprocess.STDOUT)))
        for i, out, log, p in procs:
            left = max(1.0, t0 + timeout - time.time())
            try:
                rc = p.wait(timeout=left)
            except subprocess.TimeoutExpired:
                p.kill()
                p.wait()
                dead.append("worker %d timed out" % i)
                continue
            finally:
                log.close()
            if rc != 0 or not os.path.exists(out):
                tail = ""
                try:
                    tail = open(os.path.join(wd, "w%d.log" % i)).read()[-400:]
                except OSError:
                    pass
                dead.append("worker %d exit %r: %s" % (i, rc, tail.replace("\n", " | ")))
                continue
            with open(out) as f:
                ctx.absorb(json.load(f))
        core.cleanup_workdir()
    return core.finish(mod, ctx, t0, nworkers, dead)


if __name__ == "__main__":
    sys.exit(main())
