"""C12 -- water-filling returns the capacity-optimal allocation."""
from __future__ import annotations

import numpy as np

from .core import Gen
from . import monitors

from pyphysim.comm import waterfilling as WF
from pyphysim.comm import blockdiagonalization as BD

ID = "C12"
RULE = ("gain vectors of length 1..16 drawn from classes {log-uniform over 12 "
        "decades, equal, one dominant, near-equal, sorted/unsorted} x Pt over 8 "
        "decades x N0 and Es over 4 decades (Es = 1 and Es != 1), with the "
        "number of switched-off channels 0..n-1 forced through Pt; plus doWF "
        "calls made by the block-diagonalisation code on random channels "
        "(in-situ).  A contract on the real doWF checks p >= 0, sum, KKT for "
        "the returned level, agreement with an independent longdouble "
        "closed-form water-filling, permutation equivariance and 50 feasible "
        "perturbations.  Signature = (n, gain class, active channels, "
        "Es==1, decade of Pt); non-trivial = n >= 2 or Es != 1.  "
        "Gain classes include ties, integer dtypes and physical-unit magnitudes "
        "(1e-14..1e-9 and 1e9..1e14); a fifth of the budgets sit exactly on a "
        "switch-off boundary; the permuted call is under the contract too.  "
        "Class 'wide': one link of order 1 next to links 8-20 decades weaker at "
        "a noise level that still makes them worth filling. "
        "The in-situ cases sweep power and noise on ONE BlockDiagonalizer object (1-3 rounds). "
        "One direct case in 16 has 64-1000 channels; the in-situ cases also use EnhancedBD / WhiteningBD objects (inherited entry point) and the module-level function in an SNR sweep. "
        "The returned block-diagonalisation precoder is checked for power sitting on the stronger stream. ")
ASSUMPTIONS = ["tolerances are backward-error bounds 64 n eps (level + inverse "
               "gain of the active channels)"]
EPS = np.finfo(float).eps


def ref_wf(g, Pt, N0, Es):
    """Independent closed form in longdouble: sort a = N0/(Es g) ascending,
    find the number of active channels k with a_{k-1} < mu_k <= a_k."""
    a = (np.longdouble(N0) / (np.longdouble(Es) * g.astype(np.longdouble)))
    order = np.argsort(a, kind="stable")
    a_s = a[order]
    n = a.size
    csum = np.cumsum(a_s)
    mu = None
    kact = None
    for k in range(n, 0, -1):
        mu_k = (np.longdouble(Pt) + csum[k - 1]) / k
        if mu_k > a_s[k - 1]:
            mu, kact = mu_k, k
            break
    p = np.zeros(n, dtype=np.longdouble)
    p[order[:kact]] = mu - a_s[:kact]
    return p, mu, kact, a


def objective(g, p, N0, Es):
    return float(np.sum(np.log2(1.0 + g.astype(np.longdouble) * Es *
                                p.astype(np.longdouble) / N0)))


STATE = {"rng": None, "tag": "", "calls": None}


def post_doWF(ctx, args, kwargs, result):
    names = ["vtChannels", "dPt", "noiseVar", "Es"]
    vals = {"noiseVar": 1.0, "Es": 1.0}
    vals.update(dict(zip(names, args)))
    vals.update(kwargs)
    g = np.asarray(vals["vtChannels"], dtype=float)
    Pt, N0, Es = float(vals["dPt"]), float(vals["noiseVar"]), float(vals["Es"])
    p, mu = result
    ctx.hold("matches-reference", "doWF-allocation", p)
    p = np.asarray(p, dtype=float)
    mu = float(mu)
    n = g.size
    tag = STATE["tag"]
    d = lambda **kw: (lambda: {"gains": g, "Pt": Pt, "N0": N0, "Es": Es,
                               "p": p, "mu": mu, "origin": tag, **kw})
    pr, mur, kact, a = ref_wf(g, Pt, N0, Es)
    a = a.astype(float)
    act = a < float(mur)
    amax = float(a[act].max()) if act.any() else 0.0
    tol = 64 * n * EPS * (float(mur) + amax + Pt)
    escls = "Es=1" if Es == 1.0 else "Es!=1"
    ctx.ev("nonnegative", p.shape == g.shape and bool(np.all(p >= 0)),
           detail=d())
    ctx.ev("sums-to-total", abs(float(p.sum()) - Pt) <= tol, detail=d(sum=p.sum(), tol=tol))
    # KKT for the RETURNED water level
    kkt = np.maximum(0.0, mu - a)
    ctx.ev("kkt-returned-level", bool(np.all(np.abs(p - kkt) <= tol + 1e-9 * mu)),
           cls=escls, detail=d(kkt=kkt, tol=tol))
    # agreement with the independent solution
    ctx.ev("matches-reference",
           bool(np.all(np.abs(p - pr.astype(float)) <= tol)), cls="allocation",
           detail=d(p_ref=pr.astype(float), mu_ref=float(mur)))
    ctx.ev("matches-reference", abs(mu - float(mur)) <= tol + 1e-9 * float(mur),
           cls="level:" + escls, detail=d(mu_ref=float(mur)))
    # optimality probe: move power between two channels
    rng = STATE["rng"] or np.random.default_rng(0)
    if n >= 2 and p.sum() > 0:
        base = objective(g, p, N0, Es)
        worst = 0.0
        wit = None
        for _ in range(50):
            i, j = rng.choice(n, size=2, replace=False)
            if p[i] <= 0:
                i, j = j, i
            if p[i] <= 0:
                continue
            e = p[i] * 10.0 ** rng.uniform(-6, 0)
            q = p.copy()
            q[i] -= e
            q[j] += e
            gain = objective(g, q, N0, Es) - base
            if gain > worst:
                worst, wit = gain, (int(i), int(j), float(e))
        ctx.ev("no-better-allocation", worst <= 1e-12 * (abs(base) + 1.0),
               detail=d(gain=worst, move=wit, objective=base))
    ctx.tally("doWF-calls:" + (tag or "direct"))
    if STATE.get("calls") is not None:
        STATE["calls"].append({"gains": g.copy(), "Pt": Pt, "N0": N0, "Es": Es})


monitors.attach_ensure(WF, "doWF", post_doWF, label="doWF")


def gen_gains(rng, n, gclass):
    if gclass == "loguniform":
        return 10.0 ** rng.uniform(-6, 6, n)
    if gclass == "equal":
        return np.full(n, 10.0 ** rng.uniform(-3, 3))
    if gclass == "dominant":
        g = 10.0 ** rng.uniform(-3, 0, n)
        g[int(rng.integers(0, n))] *= 10.0 ** rng.uniform(3, 8)
        return g
    if gclass == "near-equal":
        return 10.0 ** rng.uniform(-2, 2) * (1 + 1e-9 * rng.standard_normal(n))
    if gclass == "sorted-desc":
        return np.sort(10.0 ** rng.uniform(-3, 3, n))[::-1].copy()
    if gclass == "integers":        # positive gains given with an integer dtype
        return rng.integers(1, 50, size=n).astype([np.int64, np.int32][int(rng.integers(0, 2))])
    if gclass == "tiny":            # physical units: power gains of -140..-90 dB
        return 10.0 ** rng.uniform(-14, -9, n)
    if gclass == "huge":
        return 10.0 ** rng.uniform(9, 14, n)
    if gclass == "wide":            # one strong link next to links 10-20 decades weaker
        g = 10.0 ** rng.uniform(-20, -8, n)
        g[int(rng.integers(0, n))] = 10.0 ** rng.uniform(-1, 1)
        return g
    if gclass == "svals":
        h = rng.standard_normal((n, n)) + 1j * rng.standard_normal((n, n))
        return np.linalg.svd(h, compute_uv=False) ** 2
    raise ValueError(gclass)


GCLASSES = ["loguniform", "equal", "dominant", "near-equal", "sorted-desc", "svals",
            "integers", "tiny", "huge", "wide"]


def case_direct(ctx, rng, idx):
    n = int(rng.integers(1, 17))
    if idx % 16 == 5 and idx < 64000:          # (at most 4000 such vectors per run)
        # many parallel channels (all subcarriers x streams of a wide-band link)
        n = int(rng.choice([64, 128, 129, 200, 512, 1000]))
    gclass = GCLASSES[idx % len(GCLASSES)]
    g = gen_gains(rng, n, gclass)
    N0 = 10.0 ** rng.uniform(-2, 2)
    if gclass == "tiny":
        N0 = 10.0 ** rng.uniform(-15, -9)        # thermal noise in watts
    elif gclass == "huge":
        N0 = 10.0 ** rng.uniform(6, 12)
    elif gclass == "wide":
        N0 = 10.0 ** rng.uniform(-22, -12)       # (high SNR: the weak links are worth filling)
    es_mode = idx % 3
    Es = 1.0 if es_mode == 0 else 10.0 ** rng.uniform(-2, 2)
    # force the number of active channels: choose k, put the level between
    # the k-th and (k+1)-th inverse gains
    a = np.sort(N0 / (Es * g))
    k = int(rng.integers(1, n + 1))
    ptmode = "free"
    if idx % 5 == 4 and n > 1:
        # the budget that exactly fills the k best channels up to the next
        # one: the switch-off decision and the remainder are both at a
        # rounding boundary (summed in either order)
        ptmode = "boundary"
        kk = int(rng.integers(1, n))
        terms = a[kk] - a[:kk]
        Pt = float([sum(terms), np.sum(terms), np.sum(terms[::-1]),
                    float(np.sum(terms.astype(np.longdouble)))][int(rng.integers(0, 4))])
        if not (Pt > 0 and np.isfinite(Pt)):
            Pt = 10.0 ** rng.uniform(-4, 4)
            ptmode = "free"
    elif rng.random() < 0.7 and n > 1 and gclass not in ("equal",):
        hi = a[k] if k < n else a[-1] * 10.0 ** rng.uniform(0.1, 3)
        lo = a[k - 1]
        mu = lo + (hi - lo) * rng.uniform(0.05, 0.95)
        Pt = float(np.sum(mu - a[:k]))
        if not (Pt > 0 and np.isfinite(Pt)):
            Pt = 10.0 ** rng.uniform(-4, 4)
    else:
        Pt = 10.0 ** rng.uniform(-4, 4)
    STATE["rng"], STATE["tag"] = rng, ""
    monitors.ACTIVE[0] = ctx
    try:
        args = (g, Pt) if (es_mode == 0 and rng.random() < 0.3 and N0 == 1.0) \
            else (g, Pt, N0, Es)
        ok, res = ctx.call("matches-reference", WF.doWF, *args,
                           detail={"gains": g, "Pt": Pt, "N0": N0, "Es": Es})
        if ok:
            p, mu = res
            pr, mur, kact, _ = ref_wf(g, Pt, N0, Es)
            # permutation equivariance
            perm = rng.permutation(n)
            STATE["tag"] = "permuted"           # the contract watches this call too
            try:
                p2, mu2 = WF.doWF(g[perm], Pt, N0, Es)
            finally:
                STATE["tag"] = ""
            tol = 64 * n * EPS * (float(mur) + Pt + float(np.max(N0 / (Es * g))
                                                          if kact == n else mur))
            ctx.ev("permutation-equivariant",
                   bool(np.all(np.abs(np.asarray(p2) - np.asarray(p)[perm]) <= tol))
                   and abs(mu2 - mu) <= tol + 1e-9 * abs(mu),
                   detail=lambda: {"gains": g, "perm": perm, "p": p, "p_perm": p2,
                                   "mu": mu, "mu_perm": mu2})
            if n >= 2 and idx % 4 == 0:
                # the caller re-uses its gains array: refilled in place (a new
                # realisation in the same buffer) and solved again
                STATE["tag"] = "same-array-refilled"
                try:
                    gb = g.copy()
                    WF.doWF(gb, Pt, N0, Es)
                    gb[:] = gb[rng.permutation(n)]
                    if gb.dtype.kind == "f":
                        gb *= 10.0 ** rng.uniform(-0.3, 0.3, n)
                    WF.doWF(gb, Pt, N0, Es)          # (directly after, same object)
                finally:
                    STATE["tag"] = ""
            if n >= 2 or Es != 1.0:
                ctx.sig(n, gclass, int(kact), Es == 1.0, int(np.floor(np.log10(Pt))))
            ctx.tally("active=%s" % ("all" if kact == n else "some-off"))
            ctx.tally("budget=" + ptmode)
            ctx.sample(gclass, {"gains": g, "Pt": Pt, "N0": N0, "Es": Es,
                                "p": p, "mu": mu, "active": int(kact)})
    finally:
        monitors.ACTIVE[0] = None


def case_insitu(ctx, rng, idx):
    """doWF as called by the block-diagonalisation code, over a power / noise
    sweep on ONE BlockDiagonalizer object (the way a simulator loops)."""
    K = int(rng.integers(2, 5))
    nant = int(rng.integers(1, 4))
    Pu = 10.0 ** rng.uniform(-2, 2)
    noise = 10.0 ** rng.uniform(-4, 0)
    # the water-filling entry points: the class, the classes for external
    # interference (which inherit it; their pe is no part of the problem), and
    # the module-level function (called with whatever noise the loop is at)
    entry = ["class", "class", "enhanced", "whitening", "function"][idx % 5]
    pe = float(10.0 ** rng.uniform(-1, 1))
    if entry == "enhanced":
        bd = BD.EnhancedBD(K, Pu, noise, pe)
    elif entry == "whitening":
        bd = BD.WhiteningBD(K, Pu, noise, pe)
    else:
        bd = BD.BlockDiagonalizer(K, Pu, noise)
    monitors.ACTIVE[0] = ctx
    try:
        for rnd in range(int(rng.integers(1, 4))):
            if rnd and entry == "function":
                if rng.random() < 0.7:
                    noise = 10.0 ** rng.uniform(-4, 0)      # an SNR sweep: same K and power
                else:
                    Pu = 10.0 ** rng.uniform(-2, 2)
            elif rnd:
                # the object is re-configured through its public attributes
                what = int(rng.integers(0, 3))
                if what in (0, 2):
                    Pu = 10.0 ** rng.uniform(-2, 2)
                    bd.iPu = Pu
                if what in (1, 2):
                    noise = 10.0 ** rng.uniform(-4, 0)
                    bd.noise_var = noise
            H = (rng.standard_normal((K * nant, K * nant)) +
                 1j * rng.standard_normal((K * nant, K * nant))) / np.sqrt(2)
            STATE["rng"], STATE["tag"] = rng, "block_diagonalize"
            STATE["calls"] = []
            d = {"K": K, "nant": nant, "Pu": Pu, "noise": noise, "round": rnd, "entry": entry}
            if entry == "function":
                okc, sol = ctx.call("matches-reference", BD.block_diagonalize, H, K, Pu, noise,
                                    detail=d)
            else:
                okc, sol = ctx.call("matches-reference", bd.block_diagonalize, H, detail=d)
            if okc:
                # the allocation must sit on the streams it was computed for: with one
                # common water level, a stream with a larger gain never gets less
                # power than one with a smaller gain (whatever common scaling follows)
                try:
                    Ms = np.asarray(sol[1])
                    pw, gn = [], []
                    for col in range(Ms.shape[1]):
                        m = Ms[:, col]
                        pcol = float(np.vdot(m, m).real)
                        if pcol > 0:
                            k_u = col // nant
                            hk = H[k_u * nant:(k_u + 1) * nant] @ m
                            pw.append(pcol)
                            gn.append(float(np.vdot(hk, hk).real) / pcol)
                    pw, gn = np.array(pw), np.array(gn)
                    bad = 0
                    for i in range(len(pw)):
                        for j in range(i + 1, len(pw)):
                            if (pw[i] - pw[j]) * (gn[i] - gn[j]) < -1e-9 * (pw.max() * gn.max()) and \
                                    abs(gn[i] - gn[j]) > 1e-6 * gn.max() and \
                                    abs(pw[i] - pw[j]) > 1e-6 * pw.max():
                                bad += 1
                    ctx.ev("no-better-allocation", bad == 0,
                           cls="insitu:power-on-the-wrong-stream",
                           detail={**d, "powers": pw, "stream_gains": gn})
                except Exception as e:      # noqa: BLE001 - malformed solution
                    ctx.ev("no-better-allocation", False, cls="insitu:solution-malformed",
                           detail={**d, "exc": repr(e)})
            calls = STATE["calls"]
            if not okc:
                break
            # the water-filling problem of this channel, derived independently:
            # gains = squared singular values of each user's channel restricted to
            # the null space of the other users (basis independent), noise and
            # total budget as configured NOW
            want = []
            for k in range(K):
                others = np.vstack([H[j * nant:(j + 1) * nant] for j in range(K) if j != k])
                _, sv, Vh = np.linalg.svd(others)
                Nk = Vh.conj().T[:, others.shape[0]:]
                want.extend(np.linalg.svd(H[k * nant:(k + 1) * nant] @ Nk, compute_uv=False) ** 2)
            want = np.sort(np.array(want))
            ctx.ev("matches-reference", len(calls) == 1, cls="insitu:one-water-filling-call",
                   detail={**d, "calls": len(calls)})
            if len(calls) == 1:
                c = calls[0]
                got = np.sort(np.asarray(c["gains"], dtype=float))
                scale = float(np.linalg.norm(H, 2)) ** 2
                ctx.ev("matches-reference", got.shape == want.shape and
                       bool(np.all(np.abs(got - want) <= 1e-9 * scale)) and
                       abs(c["N0"] - noise) <= 1e-12 * noise and abs(c["Es"] - 1.0) == 0.0 and
                       abs(c["Pt"] - K * Pu) <= 1e-12 * K * Pu,
                       cls="insitu:problem-handed-to-doWF" + (":after-reconfiguration" if rnd else "")
                       + (":" + entry if entry != "class" else ""),
                       detail={**d, "gains_passed": got, "gains_of_the_channel": want,
                               "noise_passed": c["N0"], "budget_passed": c["Pt"]})
            ctx.sig("insitu", K, nant, int(np.floor(np.log10(Pu))), rnd)
    finally:
        monitors.ACTIVE[0] = None
        STATE["tag"] = ""
        STATE["calls"] = None


GENS = {
    "direct": Gen(case_direct, 6000, 1800000),
    "insitu": Gen(case_insitu, 300, 90000),
}
MIN_EVALS = {"nonnegative": 1000, "sums-to-total": 1000,
             "kkt-returned-level": 1000, "matches-reference": 1000,
             "no-better-allocation": 500, "permutation-equivariant": 1000}


def classify(w):
    return None
