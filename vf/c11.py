"""C11 -- reported SINRs equal first-principles signal over interference plus
noise (channel object, joint processing, ext-int, IA solver)."""
from __future__ import annotations

import math

import numpy as np

from .core import Gen
from . import num
from .num import EPS, fro, herm

from pyphysim.channels import multiuser as MU
from pyphysim.ia import iabase as IAB
from pyphysim.util import misc as MISC

ID = "C11"
RULE = ("K = 2..4 users with unequal Nr/Nt/Ns, raw channel matrix supplied by "
        "the harness (so the oracle never reads the object's own views), "
        "arbitrary complex precoders with per-user scale over 2 decades and "
        "arbitrary receive filters; 1-3 rounds on the SAME channel object with "
        "path loss set/changed/removed, noise in {None,0,1e-3..10} and "
        "re-initialisation between rounds; plain and ext-int (1-2 sources, pe "
        "over 2 decades) objects, interference-channel and joint-processing "
        "variants, and an IA-solver object fed the same precoders/filters by "
        "three different setter routes.  The oracle sums |u^H H f|^2 stream by "
        "stream.  Signature = (object kind, K, Nr, Nt, Ns, noise class, path "
        "loss state, round kind); non-trivial = at least one interfering "
        "stream.  "
        "Noise values are also passed as int / np.int64 / np.float64; the "
        "aligned generator uses zero-forcing joint precoders with identity "
        "filters and no noise (denominators at rounding level or exactly zero) "
        "and requires non-negative, non-NaN SINRs.  The solver object's own "
        "calc_Q(k) and calc_remaining_interference_percentage(k) are decided "
        "against the summed link covariances (plus noise, as the channel object "
        "documents) and their Ns[k] smallest eigenvalues; after a "
        "re-initialisation the path loss is re-applied only half of the time "
        "(it stays in force otherwise). "
        "In a third of the solver cases the object held another solution (other stream counts and power) before. "
        "In half of the solver cases the power is changed through the P setter (scalar / None / vector) after the SINRs were read, and everything is read again. "
        "The capacity function also receives inf and 0 SINRs. "
        "In 40 % of the solver cases the path loss of the channel object changes between two SINR readings of the configured solver. ")
ASSUMPTIONS = ["relative tolerance 256 eps n (1 + SINR): the library forms the "
               "denominator by subtracting the own-stream covariance",
               "K >= 2 with generic precoders, so denominators are positive"]


def rand_c(rng, *shape):
    return rng.standard_normal(shape) + 1j * rng.standard_normal(shape)


def blocks(M, Nr, Nt):
    cr = np.hstack([0, np.cumsum(Nr)])
    ct = np.hstack([0, np.cumsum(Nt)])
    return [[M[cr[k]:cr[k + 1], ct[j]:ct[j + 1]] for j in range(len(Nt))]
            for k in range(len(Nr))]


# conditioning of the desired-signal inner product u^H H f of the LAST oracle
# call, per (user, stream): sum |u||H||f| / |u^H H f|.  A stream whose signal
# survives only through cancellation (SINR of 1e-11 ...) is computed by ANY
# double-precision implementation with a relative error of eps * this factor.
SIGNAL_COND = {}
DEN_COND = {}


def oracle_sinr(Hkj, Hext_k, F, U, noise, pe):
    """Hkj[k][j]: effective link matrices; Hext_k[k]: (Nr_k x NtE_total) or
    None; F[j]: Nt_j x Ns_j (power included); U[k]: Nr_k x Ns_k (u^H applied)."""
    K = len(F)
    out = []
    for k in range(K):
        s = np.empty(F[k].shape[1])
        for l in range(F[k].shape[1]):
            u = U[k][:, l]
            sig = 0.0
            interf = 0.0
            for j in range(K):
                g = np.abs(u.conj() @ Hkj[k][j] @ F[j]) ** 2      # per stream d
                for dd in range(F[j].shape[1]):
                    if j == k and dd == l:
                        sig = g[dd]
                        SIGNAL_COND[(k, l)] = float(
                            np.abs(u) @ np.abs(Hkj[k][j]) @ np.abs(F[j][:, dd])) / \
                            max(math.sqrt(sig), 1e-300)
                    else:
                        interf += g[dd]
            den = interf
            if Hext_k is not None and Hext_k[k] is not None:
                den += pe * float(np.sum(np.abs(u.conj() @ Hext_k[k]) ** 2))
            if noise:
                den += noise * float(np.sum(np.abs(u) ** 2))
            s[l] = sig / den
            # the library evaluates the denominator as the quadratic form
            # u^H B u of a covariance MATRIX B = (sum over all streams) - (own
            # stream): its rounding error is eps |u|^T |B| |u|, which exceeds
            # eps * den by this factor when u is nearly orthogonal to what it
            # should suppress
            ua = np.abs(u)
            dabs = sum(float(np.sum((ua @ np.abs(Hkj[k][j] @ F[j])) ** 2)) for j in range(K))
            if Hext_k is not None and Hext_k[k] is not None:
                dabs += pe * float(np.sum((ua @ np.abs(Hext_k[k])) ** 2))
            if noise:
                dabs += noise * float(np.sum(ua ** 2))
            DEN_COND[(k, l)] = dabs / den if den > 0 else 1.0
        out.append(s)
    return out


def oracle_jp(Hk, Hext_k, F, U, noise, pe):
    """Joint processing: Hk[k] = whole row block (no ext-int columns), F[j] of
    full width (sum Nt x Ns_j)."""
    K = len(F)
    out = []
    for k in range(K):
        s = np.empty(F[k].shape[1])
        for l in range(F[k].shape[1]):
            u = U[k][:, l]
            sig = 0.0
            interf = 0.0
            for j in range(K):
                g = np.abs(u.conj() @ Hk[k] @ F[j]) ** 2
                for dd in range(F[j].shape[1]):
                    if j == k and dd == l:
                        sig = g[dd]
                        SIGNAL_COND[(k, l)] = float(
                            np.abs(u) @ np.abs(Hk[k]) @ np.abs(F[j][:, dd])) / \
                            max(math.sqrt(sig), 1e-300)
                    else:
                        interf += g[dd]
            den = interf
            if Hext_k is not None and Hext_k[k] is not None:
                den += pe * float(np.sum(np.abs(u.conj() @ Hext_k[k]) ** 2))
            if noise:
                den += noise * float(np.sum(np.abs(u) ** 2))
            s[l] = sig / den
            ua = np.abs(u)
            dabs = sum(float(np.sum((ua @ np.abs(Hk[k] @ F[j])) ** 2)) for j in range(K))
            if Hext_k is not None and Hext_k[k] is not None:
                dabs += pe * float(np.sum((ua @ np.abs(Hext_k[k])) ** 2))
            if noise:
                dabs += noise * float(np.sum(ua ** 2))
            DEN_COND[(k, l)] = dabs / den if den > 0 else 1.0
        out.append(s)
    return out


def cmp_sinr(ctx, monitor, cls, got, want, nterms, detail):
    ok_shape = len(got) == len(want) and all(
        np.shape(g) == np.shape(w) for g, w in zip(got, want))
    ctx.ev(monitor, ok_shape, cls=cls + ":shape", detail=detail)
    if not ok_shape:
        return
    for k, (g, w) in enumerate(zip(got, want)):
        g = np.asarray(g, dtype=float)
        cond = np.array([min(SIGNAL_COND.get((k, l), 1.0), 1e8) for l in range(w.size)])
        # 256 eps n (1 + SINR) for well-conditioned terms, plus twice the
        # first-order bound 2 n eps cond of the desired-signal inner product
        dcond = np.array([min(DEN_COND.get((k, l), 1.0), 1e12) for l in range(w.size)])
        tol = EPS * nterms * (256 * (1 + w) + 4 * cond + 4 * dcond) * w + 1e-300
        ratio = float(np.max(np.abs(g - w) / tol)) if w.size else 0.0
        ctx.stat(monitor, ratio)
        ctx.ev(monitor, ratio <= 1.0, cls=cls, n=w.size,
               detail=lambda: {**(detail() if callable(detail) else detail), "user": k,
                               "got": g, "want": w})
        ctx.ev("nonnegative", bool(np.all(g >= 0)), cls=cls, detail=detail)


def obj_array(lst):
    a = np.empty(len(lst), dtype=object)
    for i, x in enumerate(lst):
        a[i] = x
    return a


NOISES = [None, 0.0, 1e-3, 0.1, 1.0, 10.0,
          # the same quantities as the caller may hold them: not a Python float
          1, 2, 0, np.int64(3), np.float64(0.5)]


def case_channel(ctx, rng, idx):
    extint = bool(idx % 2)
    K = int(rng.integers(2, 5))
    Nr = rng.integers(1, 5, size=K)
    Nt = rng.integers(1, 5, size=K)
    Ns = np.array([int(rng.integers(1, min(Nr[k], Nt[k]) + 1)) for k in range(K)])
    NtE = []
    if extint:
        NtE = [int(x) for x in rng.integers(1, 3, size=int(rng.integers(1, 3)))]
    mu = MU.MultiUserChannelMatrixExtInt() if extint else MU.MultiUserChannelMatrix()
    rounds = int(rng.integers(1, 4))
    raw = None
    pl = None
    pl_ext = None
    kinds = []
    for r in range(rounds):
        # ---- mutate the channel object
        if r == 0 or rng.random() < 0.3:
            raw = rand_c(rng, int(Nr.sum()), int(Nt.sum()) + int(sum(NtE)))
            if extint:
                mu.init_from_channel_matrix(raw.copy(), Nr.copy(), Nt.copy(), K,
                                            NtE if len(NtE) > 1 else NtE[0])
            else:
                mu.init_from_channel_matrix(raw.copy(), Nr.copy(), Nt.copy(), K)
            kinds.append("init")
            if pl is not None and rng.random() < 0.5:
                # re-apply the path loss in force; otherwise it simply stays in
                # force for the new matrix (same configuration of users)
                kinds.append("pathloss-reapplied")
                if extint:
                    mu.set_pathloss(pl.copy(), pl_ext.copy())
                else:
                    mu.set_pathloss(pl.copy())
        choice = rng.random()
        if choice < 0.45:
            pl = 10.0 ** rng.uniform(-3, 0, size=(K, K))
            if extint:
                pl_ext = 10.0 ** rng.uniform(-3, 0, size=(K, len(NtE)))
                mu.set_pathloss(pl.copy(), pl_ext.copy())
            else:
                mu.set_pathloss(pl.copy())
            kinds.append("pathloss")
        elif choice < 0.6 and pl is not None:
            pl = pl_ext = None
            mu.set_pathloss(None)
            kinds.append("pathloss=None")
        noise = NOISES[int(rng.integers(0, len(NOISES)))]
        mu.noise_var = noise
        pe = 10.0 ** rng.uniform(-1, 1) if extint else 0.0
        # ---- effective channel as the harness knows it
        Heff = raw.copy()
        NtAll = np.hstack([Nt, np.array(NtE, dtype=int)]) if extint else Nt
        if pl is not None:
            plfull = np.hstack([pl, pl_ext]) if extint else pl
            cr = np.hstack([0, np.cumsum(Nr)])
            ct = np.hstack([0, np.cumsum(NtAll)])
            for k in range(K):
                for j in range(len(NtAll)):
                    Heff[cr[k]:cr[k + 1], ct[j]:ct[j + 1]] *= math.sqrt(plfull[k, j])
        B = blocks(Heff, Nr, NtAll)
        Hkj = [[B[k][j] for j in range(K)] for k in range(K)]
        ntot = int(Nt.sum())
        cr = np.hstack([0, np.cumsum(Nr)])
        Hk = [Heff[cr[k]:cr[k + 1], :ntot] for k in range(K)]
        Hext = [Heff[cr[k]:cr[k + 1], ntot:] for k in range(K)] if extint else None
        # ---- precoders / filters
        scale = 10.0 ** rng.uniform(-1, 1, size=K)
        F = [rand_c(rng, Nt[k], Ns[k]) * scale[k] for k in range(K)]
        Fjp = [rand_c(rng, ntot, Ns[k]) * scale[k] for k in range(K)]
        U = [rand_c(rng, Nr[k], Ns[k]) for k in range(K)]
        Fo, Fjpo, Uo = obj_array(F), obj_array(Fjp), obj_array(U)
        nterms = int(Ns.sum()) * int(max(Nr.max(), Nt.max()))
        tag = {"extint": extint, "K": K, "Nr": Nr, "Nt": Nt, "Ns": Ns, "NtE": NtE,
               "noise": noise, "pe": pe, "pathloss": pl is not None, "round": r,
               "history": list(kinds)}
        d = lambda **e: (lambda: {**tag, "raw": raw, "pl": pl, **e})
        extra = (pe,) if extint else ()
        okc, got = ctx.call("sinr-equals-first-principles", mu.calc_SINR, Fo, Uo, *extra,
                            detail=tag)
        if okc:
            ctx.hold("sinr-equals-first-principles", "calc_SINR", got)
            want = oracle_sinr(Hkj, Hext, F, U, noise, pe)
            cmp_sinr(ctx, "sinr-equals-first-principles", "ic" + ("-extint" if extint else ""),
                     got, want, nterms, d())
            # rescaling a receive filter changes nothing
            alpha = rand_c(rng, K) * 10.0 ** rng.uniform(-2, 2)
            U2 = obj_array([U[k] * alpha[k] for k in range(K)])
            okc, got2 = ctx.call("filter-scale-invariant", mu.calc_SINR, Fo, U2, *extra,
                                 detail=tag)
            if okc:
                cmp_sinr(ctx, "filter-scale-invariant", "ic", got2, want, nterms,
                         d(alpha=alpha))
        okc, gotjp = ctx.call("jp-sinr-equals-first-principles", mu.calc_JP_SINR, Fjpo, Uo,
                              *extra, detail=tag)
        if okc:
            wantjp = oracle_jp(Hk, Hext, Fjp, U, noise, pe)
            cmp_sinr(ctx, "jp-sinr-equals-first-principles",
                     "jp" + ("-extint" if extint else ""), gotjp, wantjp,
                     nterms * K, d())
        # ---- perfectly cancelled interference (zero-forcing joint precoders with
        # matched filters) and no noise: the denominator is at rounding level or
        # exactly 0, the reported SINR is huge or infinite -- never negative, never NaN
        if not extint and not noise and int(Ns.sum()) <= ntot and r == 0:
            Hall = np.vstack(Hk)                                   # sum(Nr) x ntot
            if all(Ns[k] == Nr[k] for k in range(K)) and Hall.shape[0] <= ntot:
                Pinv = np.linalg.pinv(Hall)
                cs = np.hstack([0, np.cumsum(Nr)])
                Fzf = obj_array([Pinv[:, cs[k]:cs[k + 1]] for k in range(K)])
                Uzf = obj_array([np.eye(Nr[k], dtype=complex) for k in range(K)])
                okc, gz = ctx.call("nonnegative", mu.calc_JP_SINR, Fzf, Uzf, cls="aligned-jp:raised",
                                   detail=tag)
                if okc:
                    for k in range(K):
                        g = np.asarray(gz[k], dtype=float)
                        ctx.ev("nonnegative", bool(np.all(g >= 0)) and not np.any(np.isnan(g)),
                               cls="aligned-jp", detail=lambda: {**tag, "user": k, "sinr": g})
                    ctx.tally("aligned-jp-cases")
        # ---- interference covariance matrices
        for k in range(K):
            Qw = sum((Hkj[k][j] @ F[j]) @ herm(Hkj[k][j] @ F[j]) for j in range(K) if j != k)
            Qjw = sum((Hk[k] @ Fjp[j]) @ herm(Hk[k] @ Fjp[j]) for j in range(K) if j != k)
            Rn = (noise or 0.0) * np.eye(Nr[k])
            if extint:
                Re = pe * Hext[k] @ herm(Hext[k]) + Rn
                Qw, Qjw = Qw + Re, Qjw + Re
            else:
                Qw, Qjw = Qw + Rn, Qjw + Rn
            for name, fn, Fa, W in (("calc_Q", mu.calc_Q, Fo, Qw),
                                    ("calc_JP_Q", mu.calc_JP_Q, Fjpo, Qjw)):
                okc, Q = ctx.call("covariance-matrices", fn, k, Fa, *extra, detail=tag)
                if not okc:
                    continue
                Q = np.asarray(Q)
                scale_q = fro(W) + 1e-300
                ctx.within("covariance-matrices", fro(Q - W), 256 * EPS * nterms * scale_q,
                           name + ":value", d(user=k))
                ctx.within("covariance-matrices", fro(Q - herm(Q)),
                           256 * EPS * nterms * scale_q, name + ":hermitian", d(user=k))
                ev = np.linalg.eigvalsh((Q + herm(Q)) / 2)
                ctx.ev("covariance-matrices", ev.min() >= -256 * EPS * nterms * scale_q,
                       cls=name + ":psd", detail=d(user=k, min_eig=ev.min()))
        if extint:
            okc, R = ctx.call("covariance-matrices", mu.calc_cov_matrix_extint_plus_noise, pe,
                              detail=tag)
            if okc:
                for k in range(K):
                    W = pe * Hext[k] @ herm(Hext[k]) + (noise or 0.0) * np.eye(Nr[k])
                    ctx.within("covariance-matrices", fro(np.asarray(R[k]) - W),
                               256 * EPS * nterms * (fro(W) + 1e-300), "extint+noise:value",
                               d(user=k))
        ctx.sig("extint" if extint else "plain", K, tuple(Nr), tuple(Nt), tuple(Ns),
                noise is None, noise == 0.0, pl is not None, tuple(kinds[-2:]))
    ctx.sample("extint" if extint else "plain",
               {"K": K, "Nr": Nr, "Nt": Nt, "Ns": Ns, "NtE": NtE, "history": kinds})


def case_solver(ctx, rng, idx):
    """IA-solver object vs channel object vs oracle (plain channels)."""
    K = int(rng.integers(2, 5))
    Nr = rng.integers(2, 5, size=K)
    Nt = rng.integers(2, 5, size=K)
    Ns = np.array([int(rng.integers(1, min(Nr[k], Nt[k]) + 1)) for k in range(K)])
    raw = rand_c(rng, int(Nr.sum()), int(Nt.sum()))
    mu = MU.MultiUserChannelMatrix()
    mu.init_from_channel_matrix(raw.copy(), Nr.copy(), Nt.copy(), K)
    pl = None
    if rng.random() < 0.5:
        pl = 10.0 ** rng.uniform(-2, 0, size=(K, K))
        mu.set_pathloss(pl.copy())
    noise = NOISES[int(rng.integers(0, len(NOISES)))]
    mu.noise_var = noise
    Heff = raw.copy()
    cr = np.hstack([0, np.cumsum(Nr)])
    ct = np.hstack([0, np.cumsum(Nt)])
    if pl is not None:
        for k in range(K):
            for j in range(K):
                Heff[cr[k]:cr[k + 1], ct[j]:ct[j + 1]] *= math.sqrt(pl[k, j])
    Hkj = blocks(Heff, Nr, Nt)
    P = 10.0 ** rng.uniform(-1, 1, size=K)
    Fu = [rand_c(rng, Nt[k], Ns[k]) for k in range(K)]
    Fu = [f / fro(f) for f in Fu]
    WH = [rand_c(rng, Ns[k], Nr[k]) for k in range(K)]
    route = ["set_precoders(F,P)", "P=;set_precoders(F)", "set_precoders(full_F)",
             "P=scalar;set_precoders(F)"][idx % 4]
    solver = IAB.IASolverBaseClass(mu)
    earlier = None
    if rng.random() < 0.35:
        # the solver object held another solution before (other stream counts,
        # other power): what is installed now replaces it completely
        earlier = [int(rng.integers(1, min(Nr[k], Nt[k]) + 1)) for k in range(K)]
        solver.randomizeF(np.array(earlier), float(10.0 ** rng.uniform(-1, 1)))
        solver.set_receive_filters(W_H=obj_array([rand_c(rng, earlier[k], Nr[k])
                                                  for k in range(K)]))
        if route == "set_precoders(full_F)":
            solver.P = None           # (this route installs scaled precoders, no power)
    if route == "set_precoders(F,P)":
        solver.set_precoders(F=obj_array(Fu), P=P.copy())
        fullF = [Fu[k] * math.sqrt(P[k]) for k in range(K)]
    elif route == "P=;set_precoders(F)":
        solver.P = P.copy()
        solver.set_precoders(F=obj_array(Fu))
        fullF = [Fu[k] * math.sqrt(P[k]) for k in range(K)]
    elif route == "P=scalar;set_precoders(F)":
        p = float(P[0])
        solver.P = p
        solver.set_precoders(F=obj_array(Fu))
        fullF = [Fu[k] * math.sqrt(p) for k in range(K)]
    else:
        # precoders installed already scaled, with non-unit norm and no P
        fullF = [Fu[k] * math.sqrt(P[k]) for k in range(K)]
        solver.set_precoders(full_F=obj_array(fullF))
    if rng.random() < 0.5:
        solver.set_receive_filters(W_H=obj_array(WH))
    else:
        solver.set_receive_filters(W=obj_array([herm(w) for w in WH]))
    tag = {"K": K, "Nr": Nr, "Nt": Nt, "Ns": Ns, "P": P, "route": route, "noise": noise,
           "pathloss": pl is not None, "earlier_solution_Ns": earlier}
    d = lambda **e: (lambda: {**tag, "raw": raw, **e})
    # the filters in force are the ones that were installed, whichever form was used
    okc, gWH = ctx.call("solver-sinr", lambda: (solver.W_H, solver.W), detail=tag)
    if okc:
        ctx.ev("solver-sinr", all(np.array_equal(np.asarray(gWH[0][k]), WH[k]) and
                                  np.array_equal(np.asarray(gWH[1][k]), herm(WH[k]))
                                  for k in range(K)),
               cls="installed-receive-filters", detail=d())
    okc, fWH = ctx.call("solver-sinr", lambda: solver.full_W_H, detail=tag)
    if not okc:
        return
    # the filters the solver really applies: rows of full_W_H
    U = [herm(np.asarray(fWH[k])) for k in range(K)]
    nterms = int(Ns.sum()) * int(max(Nr.max(), Nt.max()))
    want = oracle_sinr(Hkj, None, fullF, U, noise, 0.0)
    okc, got = ctx.call("solver-sinr", solver.calc_SINR, detail=tag)
    if okc:
        cmp_sinr(ctx, "solver-sinr", "solver-vs-oracle:" + route, got, want, nterms, d())
        okc2, got_ch = ctx.call("solver-sinr", mu.calc_SINR, solver.full_F, solver.full_W,
                                detail=tag)
        if okc2:
            cmp_sinr(ctx, "solver-sinr", "channel-object-vs-oracle", got_ch, want, nterms, d())
        okc3, gdb = ctx.call("solver-sinr", solver.calc_SINR_in_dB, detail=tag)
        if okc3:
            ok = all(np.allclose(np.asarray(gdb[k], dtype=float),
                                 10 * np.log10(np.asarray(got[k], dtype=float)),
                                 rtol=1e-12, atol=1e-9) for k in range(K))
            ctx.ev("sinr-in-dB", ok, detail=d(dB=gdb, lin=got))
        okc4, cap = ctx.call("sum-capacity", solver.calc_sum_capacity, detail=tag)
        if okc4:
            wcap = float(sum(np.sum(np.log2(1 + np.asarray(g, dtype=float))) for g in got))
            ctx.within("sum-capacity", abs(cap - wcap), 1e-12 * (1 + abs(wcap)),
                       "solver", d(got=cap, want=wcap))
    # the interference covariance the solver reports, and the share of it that
    # lies in the Ns[k] least-interfered directions (Cadambe eq. 30)
    for k in range(K):
        Wq = np.zeros((Nr[k], Nr[k]), dtype=complex)
        scale_q = 0.0
        for j in range(K):
            if j != k:
                A = Hkj[k][j] @ fullF[j]
                Wq = Wq + A @ herm(A)
                scale_q += fro(Hkj[k][j]) ** 2 * fro(fullF[j]) ** 2
        # (the channel object the solver delegates to documents this matrix as
        # interference PLUS noise whenever a noise variance is set)
        Wq = Wq + (noise or 0.0) * np.eye(Nr[k])
        scale_q += float(noise or 0.0)
        okc, Q = ctx.call("covariance-matrices", solver.calc_Q, k, detail=tag)
        if not okc:
            continue
        Q = np.asarray(Q)
        tolq = 256 * EPS * nterms * scale_q
        ctx.within("covariance-matrices", fro(Q - Wq), tolq, "solver.calc_Q",
                   d(user=k, got=Q, want=Wq))
        ctx.within("covariance-matrices", fro(Q - herm(Q)), tolq, "solver.calc_Q-hermitian",
                   d(user=k, got=Q))
        evq = np.linalg.eigvalsh((Wq + herm(Wq)) / 2)
        okc, pk = ctx.call("covariance-matrices", solver.calc_remaining_interference_percentage,
                           k, detail=tag)
        tr = float(np.real(np.trace(Wq)))
        if okc and tr > 0:
            wpk = float(np.sum(np.abs(evq[:Ns[k]])) / tr)
            # eigenvalue perturbation <= ||dQ||, relative to the trace
            ctx.within("covariance-matrices", abs(float(pk) - wpk),
                       4 * Ns[k] * tolq / tr + 64 * EPS, "remaining-interference-share",
                       d(user=k, got=pk, want=wpk))
    # full_F as the solver reports it must be what was installed
    okc, sfF = ctx.call("solver-sinr", lambda: solver.full_F, detail=tag)
    if okc:
        ctx.ev("solver-full_F", all(np.allclose(np.asarray(sfF[k]), fullF[k], rtol=1e-12,
                                                atol=1e-14) for k in range(K)),
               cls=route, detail=d())
    # the power is changed through the public setter AFTER the SINRs were read:
    # what is reported next belongs to the new power
    if route != "set_precoders(full_F)" and rng.random() < 0.5:
        kindp = int(rng.integers(0, 3))
        newP = [float(10.0 ** rng.uniform(-1, 1)), None, 10.0 ** rng.uniform(-1, 1, size=K)][kindp]
        okc, _ = ctx.call("solver-sinr", setattr, solver, "P",
                          newP.copy() if isinstance(newP, np.ndarray) else newP,
                          cls="P-setter-raised", detail=tag)
        if okc:
            Pv = np.ones(K) if newP is None else np.broadcast_to(np.asarray(newP, float), (K,))
            fullF2 = [Fu[k] * math.sqrt(Pv[k]) for k in range(K)]
            okc, fWH2 = ctx.call("solver-sinr", lambda: solver.full_W_H, detail=tag)
            if okc:
                U2 = [herm(np.asarray(fWH2[k])) for k in range(K)]
                want2 = oracle_sinr(Hkj, None, fullF2, U2, noise, 0.0)
                d2 = lambda **e: (lambda: {**tag, "raw": raw, "power_changed_to": newP, **e})
                okc, got2 = ctx.call("solver-sinr", solver.calc_SINR, detail=tag)
                if okc:
                    cmp_sinr(ctx, "solver-sinr", "after-P-setter:" + ["scalar", "None", "vector"][kindp],
                             got2, want2, nterms, d2())
                    okc4, cap2 = ctx.call("sum-capacity", solver.calc_sum_capacity, detail=tag)
                    if okc4:
                        wcap2 = float(sum(np.sum(np.log2(1 + np.asarray(g, dtype=float)))
                                          for g in want2))
                        ctx.within("sum-capacity", abs(cap2 - wcap2), 1e-9 * (1 + abs(wcap2)),
                                   "solver:after-P-setter", d2(got=cap2, want=wcap2))
    # the channel object changes under the live solver (new large-scale fading for
    # the next drop) and the SINRs are read again without touching the filters
    if rng.random() < 0.4:
        pl3 = None if (pl is not None and rng.random() < 0.3) else \
            10.0 ** rng.uniform(-2, 0, size=(K, K))
        okc, _ = ctx.call("solver-sinr", mu.set_pathloss, None if pl3 is None else pl3.copy(),
                          cls="set_pathloss-raised", detail=tag)
        if okc:
            Heff3 = raw.copy()
            if pl3 is not None:
                for k in range(K):
                    for j in range(K):
                        Heff3[cr[k]:cr[k + 1], ct[j]:ct[j + 1]] *= math.sqrt(pl3[k, j])
            Hkj3 = blocks(Heff3, Nr, Nt)
            try:
                F3 = [np.asarray(f) for f in solver.full_F]
                U3 = [herm(np.asarray(w)) for w in solver.full_W_H]
            except Exception as e:      # noqa: BLE001
                ctx.ev("solver-sinr", False, cls="getter-raised-after-channel-change",
                       detail={**tag, "exc": repr(e)})
                F3 = None
            if F3 is not None:
                want3 = oracle_sinr(Hkj3, None, F3, U3, noise, 0.0)
                okc, got3 = ctx.call("solver-sinr", solver.calc_SINR, detail=tag)
                if okc:
                    cmp_sinr(ctx, "solver-sinr", "after-channel-change-under-the-solver", got3, want3,
                             nterms, lambda: {**tag, "raw": raw, "new_pathloss": pl3})
    ctx.sig("solver", K, tuple(Nr), tuple(Nt), tuple(Ns), route, noise is None,
            pl is not None)
    ctx.sample("solver", tag)


def case_aligned(ctx, rng, idx):
    """Perfectly cancelled interference and no noise: zero-forcing joint
    precoders with identity filters.  The denominator of every stream is at
    rounding level or exactly zero; the reported SINR must be huge or infinite,
    never negative and never NaN, with and without path loss."""
    K = int(rng.integers(2, 5))
    Nr = rng.integers(1, 4, size=K)
    Nt = Nr.copy()
    Nt[int(rng.integers(0, K))] += int(rng.integers(0, 3))          # square or wide
    mu = MU.MultiUserChannelMatrix()
    mu.randomize(Nr.copy(), Nt.copy(), K)
    if rng.random() < 0.5:
        mu.set_pathloss(10.0 ** rng.uniform(-3, 0, size=(K, K)))
    noise = [None, 0.0, 0][int(rng.integers(0, 3))]
    mu.noise_var = noise
    Hall = np.asarray(mu.big_H)
    Pinv = np.linalg.pinv(Hall)
    cs = np.hstack([0, np.cumsum(Nr)])
    scale = 10.0 ** rng.uniform(-2, 2, size=K)
    Fzf = obj_array([Pinv[:, cs[k]:cs[k + 1]] * scale[k] for k in range(K)])
    Uzf = obj_array([np.eye(Nr[k], dtype=complex) for k in range(K)])
    tag = {"K": K, "Nr": Nr, "Nt": Nt, "noise": noise, "pathloss": mu.pathloss is not None}
    okc, gz = ctx.call("nonnegative", mu.calc_JP_SINR, Fzf, Uzf, cls="aligned-jp:raised",
                       detail=tag)
    if okc:
        for k in range(K):
            g = np.asarray(gz[k], dtype=float)
            ctx.ev("nonnegative", bool(np.all(g >= 0)) and not np.any(np.isnan(g)),
                   cls="aligned-jp", n=g.size, detail=lambda: {**tag, "user": k, "sinr": g})
        ctx.sample("aligned", {**tag, "sinr_user0": np.asarray(gz[0], dtype=float)})
        ctx.sig("aligned", K, tuple(Nr), noise is None)


def case_capacity_fn(ctx, rng, idx):
    """calc_shannon_sum_capacity over a wide dynamic range / many streams."""
    n = int(rng.choice([1, 2, 5, 20, 100, 400]))
    hi = float(rng.choice([1, 6, 15, 30]))
    sinr = 10.0 ** rng.uniform(-3, hi, size=n)
    if idx % 7 == 3:
        # streams without any interference or noise (isolated cells, zero-forced
        # streams with no noise configured): SINR = inf, and so is their capacity
        sinr[int(rng.integers(0, n))] = np.inf
    if idx % 7 == 5:
        sinr[int(rng.integers(0, n))] = 0.0      # a blocked stream contributes nothing
    form = idx % 3
    arg = sinr if form == 0 else (sinr.reshape(-1, 1) if form == 1 else
                                  (float(sinr[0]) if n == 1 else sinr))
    want = float(np.sum(np.log2(1 + np.asarray(arg, dtype=float))))
    okc, got = ctx.call("sum-capacity", MISC.calc_shannon_sum_capacity, arg,
                        detail={"n": n, "max_exp": hi})
    if okc and not np.isfinite(want):
        ctx.ev("sum-capacity", float(got) == want, cls="calc_shannon_sum_capacity:infinite-sinr",
               detail={"n": n, "got": got, "want": want})
    elif okc:
        ctx.within("sum-capacity", abs(float(got) - want), 1e-11 * (1 + abs(want)),
                   "calc_shannon_sum_capacity",
                   {"n": n, "sinr_head": sinr[:4], "got": got, "want": want})
    ctx.sig("capacity", n, hi, form)


GENS = {
    "channel": Gen(case_channel, 700, 300000),
    "solver": Gen(case_solver, 500, 200000),
    "capacity-fn": Gen(case_capacity_fn, 200, 100000),
    "aligned": Gen(case_aligned, 300, 60000),
}
MIN_EVALS = {"sinr-equals-first-principles": 2000,
             "jp-sinr-equals-first-principles": 2000,
             "filter-scale-invariant": 2000, "covariance-matrices": 5000,
             "solver-sinr": 2000, "sum-capacity": 500, "sinr-in-dB": 300,
             "nonnegative": 2000}
