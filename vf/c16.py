"""C16 -- theoretical error-rate curves vs the emitted constellation."""
from __future__ import annotations

import math

import numpy as np
from scipy import integrate, special

from .core import Gen

from pyphysim.modulators import fundamental as F

ID = "C16"
RULE = ("every modulator (BPSK, QPSK, PSK 2..2^12, QAM 4..4^6; PSK also after "
        "phase-offset changes or after replacing a differently sized table through setConstellation) x SNR inputs {grid -30..60 dB step 0.25 as "
        "array, random scalars (python float, numpy scalar, 0-d, 2-d arrays), "
        "150 dB} x packet lengths {1,2,10,100,1e4}; d_min and the neighbour "
        "structure are measured on the emitted table and the closed forms are "
        "evaluated with an independent Q function (scipy ndtr) and Craig's "
        "integral.  Signature = (class, M, input form, relation); non-trivial "
        "= the relation was evaluated on at least one SNR point with error "
        "rate above 1e-300.")
ASSUMPTIONS = ["SNR is Es/N0 with Es = 1 (unit mean energy is checked by C01)",
               "1-(1-p)^2 cancellation: absolute 4 eps allowed",
               "Craig integral by scipy.integrate.quad, relative 1e-7 allowance"]

EPS = np.finfo(float).eps
GRID = np.arange(-30.0, 60.0001, 0.25)
PLENS = [1, 2, 10, 100, 10000]


def Q(x):
    return special.ndtr(-np.asarray(x, dtype=float))


def specs():
    out = [("BPSK", 2), ("QPSK", 4)]
    out += [("PSK", 2 ** k) for k in range(1, 13)]
    out += [("QAM", 4 ** k) for k in range(1, 7)]
    return out


def build(cls, M, variant, rng):
    if cls == "BPSK":
        return F.BPSK()
    if cls == "QPSK":
        m = F.QPSK()
    elif cls == "QAM":
        return F.QAM(M)
    else:
        m = F.PSK(M, float(rng.uniform(-4, 4))) if variant == 1 else F.PSK(M)
    if variant == 2:
        for _ in range(int(rng.integers(1, 4))):
            _ = m.K, m.calcTheoreticalSpectralEfficiency(3.0, 10)   # used in between
            m.setPhaseOffset(float(rng.uniform(-4, 4)))
    return m


def build_via_setconstellation(cls, M, rng):
    """An object that first carried a constellation of ANOTHER size (and was
    used), then received this one through the public setConstellation."""
    orders = [o for c, o in specs() if c == cls and o != M]
    M0 = int(rng.choice(orders))
    m = F.PSK(M0) if cls == "PSK" else F.QAM(M0)
    _ = m.K, m.M, m.calcTheoreticalSpectralEfficiency(3.0, 10), m.calcTheoreticalBER(3.0)
    donor = F.PSK(M) if cls == "PSK" else F.QAM(M)
    m.setConstellation(donor.symbols.copy())
    return m


def dmin_of(sym):
    s = np.asarray(sym, dtype=complex)
    best = np.inf
    for a in range(0, s.size, 512):
        d = np.abs(s[a:a + 512, None] - s[None, :])
        d[np.arange(d.shape[0]), a + np.arange(d.shape[0])] = np.inf
        best = min(best, d.min())
    return float(best)


def craig_exact_psk(M, snr):
    a = snr * math.sin(math.pi / M) ** 2
    f = lambda th: math.exp(-a / math.sin(th) ** 2) if th > 0 else 0.0
    upper = math.pi - math.pi / M
    # the integrand rises from 0 to 1 around theta0 = asin(sqrt(a)); for large M
    # that edge is very narrow, so the range is split around it
    th0 = math.asin(min(1.0, math.sqrt(a)))
    cuts = sorted({min(max(c * th0, 0.0), upper) for c in (0.1, 0.3, 0.6, 1.0, 2.0, 4.0, 10.0, 40.0)}
                  | {0.0, upper, min(upper, math.pi / 2)})
    val = 0.0
    for lo, hi in zip(cuts[:-1], cuts[1:]):
        if hi > lo:
            val += integrate.quad(f, lo, hi, epsabs=0, epsrel=1e-11, limit=200)[0]
    return val / math.pi


def close(a, b, rel, absol=0.0):
    a = np.asarray(a, dtype=float)
    b = np.asarray(b, dtype=float)
    return np.abs(a - b) <= rel * np.maximum(np.abs(a), np.abs(b)) + absol


def check_curves(ctx, m, cls, M, snr_db, form, rng):
    """snr_db: input in the form given to the library; all relations are
    evaluated element-wise on flattened float copies."""
    tag = {"class": cls, "M": M, "form": form}
    d = lambda **kw: (lambda: {**tag, **{k: (v() if callable(v) else v)
                                         for k, v in kw.items()}})
    okc, ser = ctx.call("ser-formula", m.calcTheoreticalSER, snr_db, detail=tag)
    okb, ber = ctx.call("ber-bounds", m.calcTheoreticalBER, snr_db, detail=tag)
    if not (okc and okb):
        return
    if isinstance(ser, np.ndarray):
        ctx.hold("ser-formula", "calcTheoreticalSER", ser)
    if isinstance(ber, np.ndarray):
        ctx.hold("ber-bounds", "calcTheoreticalBER", ber)
    x = np.asarray(snr_db, dtype=float).ravel()
    ser_f = np.asarray(ser, dtype=float).ravel()
    ber_f = np.asarray(ber, dtype=float).ravel()
    ctx.ev("output-shape", np.shape(ser) == np.shape(snr_db) and
           np.shape(ber) == np.shape(snr_db),
           detail=d(ser_shape=np.shape(ser), in_shape=np.shape(snr_db)))
    if ser_f.shape != x.shape or ber_f.shape != x.shape:
        return
    n = x.size
    snr = 10.0 ** (x / 10.0)
    sigma = np.sqrt(1.0 / (2.0 * snr))
    dmin = dmin_of(m.symbols)
    q = Q(dmin / (2.0 * sigma))
    # --- SER implied by the emitted constellation
    if cls == "BPSK":
        want = q
        ok = close(ser_f, want, 1e-10) | (np.maximum(ser_f, want) < 1e-300)
    elif cls == "QAM":
        p = 2.0 * (1.0 - 1.0 / math.sqrt(M)) * q
        want = p * (2.0 - p)                      # = 1-(1-p)^2 without cancellation
        ok = close(ser_f, want, 1e-10, 4 * EPS)
    else:
        want = 2.0 * q
        ok = close(ser_f, want, 1e-10) | (np.maximum(ser_f, want) < 1e-300)
    bad = np.flatnonzero(~ok)
    ctx.ev("ser-formula", bad.size == 0, n=n, cls=cls,
           detail=d(snr_db=lambda: x[bad[0]], got=lambda: ser_f[bad[0]],
                    want=lambda: want[bad[0]], dmin=dmin))
    if np.any(want > 1e-300):
        ctx.sig(cls, M, form, "ser")
    # --- PSK: between exact (Craig) and twice exact, on a subsample
    if cls in ("PSK", "QPSK"):
        pick = np.unique(np.concatenate([np.arange(0, n, max(1, n // 24)),
                                         rng.integers(0, n, size=min(n, 6))]))
        for i in pick:
            if ser_f[i] < 1e-290:
                continue
            ex = craig_exact_psk(M, snr[i])
            lo_ok = ex <= ser_f[i] * (1 + 1e-7) + 1e-300
            hi_ok = ser_f[i] <= 2 * ex * (1 + 1e-7) + 1e-300
            ctx.ev("psk-craig-bounds", lo_ok and hi_ok, cls="PSK",
                   detail=d(snr_db=x[i], ser=ser_f[i], exact=ex))
        ctx.sig(cls, M, form, "craig")
    # --- probabilities
    for name, v in (("ser", ser_f), ("ber", ber_f)):
        ctx.ev("in-unit-interval", bool(np.all((v >= -4 * EPS) & (v <= 1 + 4 * EPS))),
               n=n, cls=name, detail=d(which=name, min=v.min(), max=v.max()))
    K = math.log2(M)
    b1 = ber_f <= ser_f * (1 + 1e-12) + 4 * EPS
    b2 = ser_f <= K * ber_f * (1 + 1e-12) + 4 * EPS
    bad = np.flatnonzero(~(b1 & b2))
    ctx.ev("ber-bounds", bad.size == 0, n=n, cls=cls,
           detail=d(snr_db=lambda: x[bad[0]], ser=lambda: ser_f[bad[0]],
                    ber=lambda: ber_f[bad[0]], K=K))
    ctx.sig(cls, M, form, "ber")
    # --- monotone in SNR (sort by SNR first)
    if n > 1:
        o = np.argsort(x, kind="stable")
        for name, v in (("ser", ser_f[o]), ("ber", ber_f[o])):
            inc = v[1:] - v[:-1]
            same = x[o][1:] == x[o][:-1]
            lim = 4 * EPS + 1e-12 * v[:-1]
            bad = np.flatnonzero((inc > lim) & ~same)
            ctx.ev("monotone-in-snr", bad.size == 0, n=n - 1, cls=name,
                   detail=d(which=name, snr_db=lambda: x[o][bad[0]:bad[0] + 2],
                            values=lambda: v[bad[0]:bad[0] + 2]))
        ctx.sig(cls, M, form, "monotone")
    # --- PER and spectral efficiency
    for L in PLENS:
        okp, per = ctx.call("per-se-relations", m.calcTheoreticalPER, snr_db, L,
                            detail=tag)
        oks, se = ctx.call("per-se-relations",
                           m.calcTheoreticalSpectralEfficiency, snr_db, L,
                           detail=tag)
        if not (okp and oks):
            continue
        per_f = np.asarray(per, dtype=float).ravel()
        se_f = np.asarray(se, dtype=float).ravel()
        want_per = -np.expm1(L * np.log1p(-np.minimum(ber_f, 1.0)))
        tol = 4 * EPS * (L + 2)
        okv = np.abs(per_f - want_per) <= tol + 1e-12 * want_per
        bad = np.flatnonzero(~okv)
        ctx.ev("per-se-relations", bad.size == 0, n=n, cls="per",
               detail=d(L=L, snr_db=lambda: x[bad[0]], per=lambda: per_f[bad[0]],
                        want=lambda: want_per[bad[0]], ber=lambda: ber_f[bad[0]]))
        okv = np.abs(se_f - K * (1 - per_f)) <= 8 * EPS * K
        bad = np.flatnonzero(~okv)
        ctx.ev("per-se-relations", bad.size == 0, n=n, cls="se",
               detail=d(L=L, snr_db=lambda: x[bad[0]], se=lambda: se_f[bad[0]],
                        per=lambda: per_f[bad[0]], K=K))
        ctx.ev("in-unit-interval",
               bool(np.all((per_f >= -tol) & (per_f <= 1 + tol))), n=n, cls="per",
               detail=d(L=L, min=per_f.min(), max=per_f.max()))
    oks, se0 = ctx.call("per-se-relations", m.calcTheoreticalSpectralEfficiency,
                        snr_db, detail=tag)
    if oks:
        se0 = np.asarray(se0, dtype=float).ravel()
        ctx.ev("per-se-relations",
               bool(np.all(np.abs(se0 - K * (1 - ber_f)) <= 8 * EPS * K)), n=n,
               cls="se-no-packet", detail=d(se=se0[:3], ber=ber_f[:3]))
    ctx.sig(cls, M, form, "per-se")
    ctx.ev("K-matches-table", 2 ** m.K == np.asarray(m.symbols).size == m.M,
           detail=d(K=m.K, size=np.asarray(m.symbols).size))


FORMS = ["grid", "pyfloat", "npscalar", "0d", "2d", "highsnr"]


def case_curves(ctx, rng, idx):
    sp = specs()
    cls, M = sp[idx % len(sp)]
    form = FORMS[(idx // len(sp)) % len(FORMS)]
    variant = (idx // (len(sp) * len(FORMS))) % 4
    if cls in ("BPSK", "QAM") and variant != 3:
        variant = 0
    if cls == "QPSK" and variant == 1:
        variant = 2
    if variant == 3 and cls in ("BPSK", "QPSK"):
        variant = 0 if cls == "BPSK" else 2
    m = build_via_setconstellation(cls, M, rng) if variant == 3 \
        else build(cls, M, variant, rng)
    if form == "grid":
        snr = GRID.copy()
    elif form == "pyfloat":
        snr = float(rng.uniform(-30, 60))
    elif form == "npscalar":
        snr = np.float64(rng.uniform(-30, 60))
    elif form == "0d":
        snr = np.array(rng.uniform(-30, 60))
    elif form == "2d":
        snr = rng.uniform(-30, 60, size=(3, 5))
    else:
        snr = np.array([60.0, 100.0, 150.0])
    monitors_before = sum(ctx.viol_count.values())
    check_curves(ctx, m, cls, M, snr, form, rng)
    if form == "highsnr":
        ser = np.asarray(m.calcTheoreticalSER(np.array([150.0])), dtype=float)
        ber = np.asarray(m.calcTheoreticalBER(np.array([150.0])), dtype=float)
        ctx.ev("vanishes-at-high-snr", bool(ser[0] < 1e-12 and ber[0] < 1e-12),
               detail={"class": cls, "M": M, "ser": ser[0], "ber": ber[0]})
    if form in ("pyfloat", "npscalar", "0d"):
        # scalar and array input must give the same values
        a = np.asarray(m.calcTheoreticalSER(np.array([float(snr)])), dtype=float)[0]
        s = float(np.asarray(m.calcTheoreticalSER(snr)))
        ctx.ev("scalar-equals-array", abs(a - s) <= 1e-9 * max(a, s) + 4 * EPS,
               detail={"class": cls, "M": M, "snr": float(snr), "scalar": s,
                       "array": a})
    ctx.sample(form, {"class": cls, "M": M, "variant": variant, "form": form,
                      "snr_head": np.asarray(snr, dtype=float).ravel()[:3],
                      "ser_head": np.asarray(m.calcTheoreticalSER(snr),
                                             dtype=float).ravel()[:3]})


def case_random_points(ctx, rng, idx):
    sp = specs()
    cls, M = sp[int(rng.integers(0, len(sp)))]
    variant = int(rng.integers(0, 3))
    if cls in ("BPSK", "QAM"):
        variant = 0
    if cls == "QPSK" and variant == 1:
        variant = 2
    m = build(cls, M, variant, rng)
    n = int(rng.integers(1, 200))
    snr = rng.uniform(-30, 60, size=n)
    if rng.random() < 0.3:
        snr = np.sort(snr)
    check_curves(ctx, m, cls, M, snr, "random-1d", rng)


def case_cross_family(ctx, rng, idx):
    """Modulators of the same order from different families (and several
    objects of one family) queried alternately with the SAME scalar SNR and
    packet length: every answer must follow from that object's own BER."""
    M = int(rng.choice([2, 4, 16, 64, 256]))
    mods = []
    if M == 2:
        mods = [("BPSK", F.BPSK()), ("PSK", F.PSK(2))]
    elif M == 4:
        mods = [("QPSK", F.QPSK()), ("PSK", F.PSK(4)), ("QAM", F.QAM(4))]
    else:
        mods = [("PSK", F.PSK(M)), ("QAM", F.QAM(M)), ("PSK", F.PSK(M, 0.3))]
    order = list(rng.permutation(len(mods))) * 2
    snr = float(rng.uniform(-5, 25)) if rng.random() < 0.7 else int(rng.integers(-5, 25))
    L = int(rng.choice([1, 8, 100, 1000, 12000]))
    for j in order:
        name, m = mods[int(j)]
        tag = {"class": name, "M": M, "snr_db": snr, "packet_length": L,
               "order_of_queries": [mods[int(i)][0] for i in order]}
        okc, vals = ctx.call("per-se-relations", lambda: (
            m.calcTheoreticalBER(snr), m.calcTheoreticalPER(snr, L),
            m.calcTheoreticalSpectralEfficiency(snr, L), m.calcTheoreticalSER(snr)),
            cls="cross-family-raised", detail=tag)
        if not okc:
            continue
        ber, per, se, ser = (float(v) for v in vals)
        want_per = -math.expm1(L * math.log1p(-ber)) if ber < 1 else 1.0
        ctx.within("per-se-relations", abs(per - want_per), 1e-12 + 64 * EPS * L * max(ber, 1e-300),
                   "per:cross-family", {**tag, "ber": ber, "per": per, "want": want_per})
        ctx.within("per-se-relations", abs(se - math.log2(M) * (1 - per)), 1e-12,
                   "se:cross-family", {**tag, "se": se, "per": per})
        ctx.ev("ber-bounds", ber <= ser * (1 + 1e-12) + 4 * EPS and
               ser <= math.log2(M) * ber * (1 + 1e-12) + 4 * EPS, cls="cross-family",
               detail={**tag, "ber": ber, "ser": ser})
    ctx.sig("cross-family", M, L, isinstance(snr, int))


NS = len(specs())
GENS = {
    "curves": Gen(case_curves, NS * len(FORMS) * 4, NS * len(FORMS) * 4,
                  exhaustive=True),
    "random-points": Gen(case_random_points, 150, 60000),
    "cross-family": Gen(case_cross_family, 200, 40000),
}
MIN_EVALS = {"ser-formula": 5000, "ber-bounds": 5000, "monotone-in-snr": 2000,
             "per-se-relations": 5000, "psk-craig-bounds": 200,
             "in-unit-interval": 5000, "vanishes-at-high-snr": 20,
             "scalar-equals-array": 20}
