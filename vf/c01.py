"""C01 -- modulation is invertible, detection picks the nearest symbol."""
from __future__ import annotations

import math

import numpy as np

from .core import Gen
from . import monitors

from pyphysim.modulators import fundamental as F

ID = "C01"
RULE = ("cases: (modulator class, M, phase-offset history) x index-array "
        "shapes (round trip) and x received-sample classes {on-point, noisy, "
        "far box, boundary ladder delta=1e-1..1e-9, tiny/huge magnitude}; a "
        "signature is (class, M, offset-kind, sample-class or index-shape "
        "kind); rejection cases enumerate every unsupported M.  Non-trivial: "
        "the oracle decided at least one sample/index (tie-zone samples are "
        "tallied, not counted)."
        " The next block (same size) is modulated before the first one is demodulated; the first block must be unchanged. ")
ASSUMPTIONS = [
    "received samples are finite complex numbers; exact ties (best two "
    "squared distances within 1e-12 relative) are excluded as the property "
    "states",
    "nearest point computed independently in longdouble squared distances",
]

PSK_ORDERS_Q = [2 ** k for k in range(1, 11)]
PSK_ORDERS_T = [2 ** k for k in range(1, 13)]
QAM_ORDERS = [4 ** k for k in range(1, 7)]


def specs(tier):
    out = [("BPSK", 2), ("QPSK", 4)]
    out += [("PSK", m) for m in (PSK_ORDERS_T if tier == "thorough" else PSK_ORDERS_Q)]
    out += [("QAM", m) for m in QAM_ORDERS]
    return out


OFFSET_KINDS = ["none", "ctor", "pi/M", "set1", "setN", "setconst"]


def build(spec, okind, rng):
    """Build a modulator; returns (modulator, description)."""
    cls, M = spec
    hist = []
    if okind == "setconst" and cls in ("PSK", "QAM"):
        # an object that carried (and used) a table of another size and then
        # received this one through the public setConstellation
        others = [o for c, o in specs("quick") if c == cls and o != M]
        M0 = int(rng.choice(others))
        m = F.PSK(M0) if cls == "PSK" else F.QAM(M0)
        _ = m.K, m.M, m.demodulate(m.modulate(np.arange(M0)))
        donor = F.PSK(M) if cls == "PSK" else F.QAM(M)
        m.setConstellation(donor.symbols.copy())
        hist.append(("setConstellation-from", M0))
        return m, hist
    if cls == "BPSK":
        return F.BPSK(), hist
    if cls == "QPSK":
        m = F.QPSK()
    elif cls == "QAM":
        return F.QAM(M), hist
    else:
        if okind == "ctor":
            off = float(rng.uniform(-7, 7))
            hist.append(("ctor", off))
            m = F.PSK(M, off)
        elif okind == "pi/M":
            hist.append(("ctor", math.pi / M))
            m = F.PSK(M, math.pi / M)
        else:
            m = F.PSK(M)
    def use():     # the object is USED between the setter calls
        _ = m.K, m.M, m.demodulate(m.modulate(np.arange(min(M, 8))))
        hist.append(("use", ))
    if okind == "set1":
        use()
        off = float(rng.uniform(-7, 7))
        hist.append(("set", off))
        m.setPhaseOffset(off)
    elif okind == "setN":
        for _ in range(int(rng.integers(2, 5))):
            if rng.random() < 0.7:
                use()
            off = float(rng.choice([0.0, math.pi / M, rng.uniform(-7, 7)]))
            hist.append(("set", off))
            m.setPhaseOffset(off)
    return m, hist


def ideal_dmin(cls, M):
    if cls in ("BPSK",):
        return 2.0
    if cls in ("PSK", "QPSK"):
        return 2 * math.sin(math.pi / M)
    return 2.0 / math.sqrt(2 * (M - 1) / 3.0)


def min_pairwise(sym):
    s = np.asarray(sym, dtype=complex)
    best = np.inf
    for a in range(0, s.size, 256):
        d = np.abs(s[a:a + 256, None] - s[None, :])
        d[np.arange(d.shape[0]), a + np.arange(d.shape[0])] = np.inf
        best = min(best, d.min())
    return best


def check_constellation(ctx, m, spec, tag):
    cls, M = spec
    sym = np.asarray(m.symbols)
    d = lambda: {"spec": spec, "tag": tag}
    ctx.ev("table-size", m.M == M and sym.size == M and 2 ** m.K == M,
           detail=lambda: {"spec": spec, "M": m.M, "K": m.K, "size": sym.size})
    e = float(np.mean(np.abs(sym.astype(complex)) ** 2))
    ctx.ev("unit-energy", abs(e - 1) <= 1e-12, detail=lambda: {"spec": spec, "energy": e})
    dm = min_pairwise(sym)
    ctx.ev("distinct-points", dm > 0.1 * ideal_dmin(cls, M),
           detail=lambda: {"spec": spec, "tag": tag, "min_dist": dm,
                           "ideal": ideal_dmin(cls, M)})


def ml_oracle(sym, r):
    """argmin and tie flags computed independently (longdouble squared
    distances); r flat complex."""
    s = np.asarray(sym, dtype=complex)
    sr = s.real.astype(np.longdouble)
    si = s.imag.astype(np.longdouble)
    rr = r.real.astype(np.longdouble)
    ri = r.imag.astype(np.longdouble)
    d2 = (rr[:, None] - sr[None, :]) ** 2 + (ri[:, None] - si[None, :]) ** 2
    best = d2.argmin(axis=1)
    return d2, best


def check_detection(ctx, m, spec, okind, r, sclass):
    """Demodulate r (any shape) with the real code and decide every sample."""
    sym = np.asarray(m.symbols)
    ok, out = ctx.call("demodulate-ml", m.demodulate, r,
                       detail=lambda: {"spec": spec, "sclass": sclass,
                                       "shape": r.shape})
    if not ok:
        return
    out = np.asarray(out)
    ctx.ev("demodulate-shape", out.shape == r.shape and
           np.issubdtype(out.dtype, np.integer),
           detail=lambda: {"spec": spec, "in": r.shape, "out": out.shape,
                           "dtype": str(out.dtype)})
    if out.shape != r.shape:
        return
    flat = np.asarray(r, dtype=complex).ravel()
    ret = out.ravel().astype(np.int64)
    M = sym.size
    inr = (ret >= 0) & (ret < M)
    ctx.ev("demodulate-range", bool(inr.all()),
           detail=lambda: {"spec": spec, "bad": ret[~inr][:5]})
    if not inr.all():
        return
    decided = 0
    for a in range(0, flat.size, 1024):
        rf = flat[a:a + 1024]
        d2, best = ml_oracle(sym, rf)
        rows = np.arange(rf.size)
        dbest = d2[rows, best]
        dret = d2[rows, ret[a:a + 1024]]
        # second best distance (for the tie zone)
        d2c = d2.copy()
        d2c[rows, best] = np.inf
        dsecond = d2c.min(axis=1) if M > 1 else np.full(rf.size, np.inf)
        scale = np.maximum(dsecond, np.finfo(float).tiny)
        tie = (dsecond - dbest) <= 1e-12 * scale
        wrong = (ret[a:a + 1024] != best) & ~tie
        ntie = int(tie.sum())
        if ntie:
            ctx.tally("tie-zone-samples", ntie)
        nd = int((~tie).sum())
        decided += nd
        if nd:
            bad = np.flatnonzero(wrong)
            ctx.ev("demodulate-ml", bad.size == 0, n=nd,
                   cls="not-nearest",
                   detail=lambda: {"spec": spec, "okind": okind,
                                   "sclass": sclass,
                                   "sample": complex(rf[bad[0]]),
                                   "returned": int(ret[a + bad[0]]),
                                   "nearest": int(best[bad[0]]),
                                   "d2_returned": float(dret[bad[0]]),
                                   "d2_nearest": float(dbest[bad[0]]),
                                   "symbols_head": sym[:8]})
    if decided:
        ctx.sig(spec, okind, "detect", sclass)
    ctx.tally("decided-samples", decided)


def neighbour_pairs(sym, k, rng):
    """k random (point, nearest neighbour) pairs."""
    s = np.asarray(sym, dtype=complex)
    idx = rng.integers(0, s.size, size=k)
    d = np.abs(s[idx, None] - s[None, :])
    d[np.arange(k), idx] = np.inf
    return s[idx], s[d.argmin(axis=1)]


def gen_samples(sym, sclass, n, rng):
    s = np.asarray(sym, dtype=complex)
    M = s.size
    dm_ideal = np.abs(s[0] - s[1:]).min() if M > 1 else 1.0
    if sclass == "on-point":
        return s[rng.integers(0, M, size=n)]
    if sclass.startswith("noisy"):
        scale = {"noisy-small": 0.05, "noisy-mid": 0.4, "noisy-big": 2.0}[sclass]
        z = rng.standard_normal(n) + 1j * rng.standard_normal(n)
        return s[rng.integers(0, M, size=n)] + scale * dm_ideal * z
    if sclass == "far-box":
        ext = 3 * max(np.abs(s.real).max(), np.abs(s.imag).max(), 1.0)
        return rng.uniform(-ext, ext, n) + 1j * rng.uniform(-ext, ext, n)
    if sclass == "huge":
        mag = 10.0 ** rng.uniform(1, 150, n)
        return mag * np.exp(2j * np.pi * rng.uniform(0, 1, n))
    if sclass == "tiny":
        mag = 10.0 ** rng.uniform(-30, -1, n)
        return mag * np.exp(2j * np.pi * rng.uniform(0, 1, n))
    if sclass.startswith("boundary"):
        delta = float(sclass.split(":")[1])
        a, b = neighbour_pairs(s, n, rng)
        u = (b - a) / np.abs(b - a)
        sign = rng.choice([-1.0, 1.0], size=n)
        lateral = rng.uniform(-0.2, 0.2, n) * np.abs(b - a)
        return (a + b) / 2 + sign * delta * np.abs(b - a) * u + 1j * u * lateral
    if sclass == "axes":      # real / imaginary axes and origin +- delta
        t = 10.0 ** rng.uniform(-9, 0.5, n) * rng.choice([-1.0, 1.0], n)
        im = rng.standard_normal(n) * 10.0 ** rng.uniform(-9, 1, n)
        return t + 1j * im
    raise ValueError(sclass)


SAMPLE_CLASSES = ["on-point", "noisy-small", "noisy-mid", "noisy-big",
                  "far-box", "huge", "tiny", "boundary:1e-1", "boundary:1e-3",
                  "boundary:1e-6", "boundary:1e-9", "axes"]
SHAPES = ["0d", "1d", "2d", "3d", "empty", "2d-T", "2d-F", "3d-swap", "strided"]


def reshape_kind(x, kind, rng):
    x = np.asarray(x)
    if kind == "0d":
        return x.ravel()[:1].reshape(())
    if kind == "1d":
        return x.ravel()
    if kind == "2d":
        n = x.size - x.size % 2
        return x.ravel()[:n].reshape(2, -1) if n else x.ravel().reshape(0, 2)
    if kind == "3d":
        n = x.size - x.size % 6
        return x.ravel()[:n].reshape(3, 2, -1) if n else x.ravel()[:0].reshape(3, 2, 0)
    if kind == "empty":
        return x.ravel()[:0]
    if kind in ("2d-T", "2d-F", "3d-swap", "strided"):
        n = x.size - x.size % 6
        if n == 0:
            return x.ravel()[:0].reshape(0, 2).T
        y = x.ravel()[:n]
        if kind == "2d-T":
            return y.reshape(3, -1).T                 # transposed view
        if kind == "2d-F":
            return np.asfortranarray(y.reshape(2, -1))  # Fortran ordered
        if kind == "3d-swap":
            return np.swapaxes(y.reshape(3, 2, -1), 0, 2)
        return np.repeat(y, 2)[::2].reshape(2, -1)[:, ::-1]   # negative stride view
    raise ValueError(kind)


# ---------------------------------------------------------------------------
def case_constellation(ctx, rng, idx):
    """Exhaustive: (modulator spec) x (offset kind): constellation relations
    and the round trip of every index."""
    sp = specs(ctx.tier)
    spec = sp[idx % len(sp)]
    okind = OFFSET_KINDS[(idx // len(sp)) % len(OFFSET_KINDS)]
    cls, M = spec
    if cls in ("BPSK", "QAM") and okind not in ("none", "setconst"):
        return
    if cls == "QPSK" and okind in ("ctor", "pi/M", "setconst"):
        return
    if cls == "BPSK" and okind == "setconst":
        return
    ok, res = ctx.call("table-size", build, spec, okind, rng,
                       detail={"spec": spec, "okind": okind})
    if not ok:
        return
    m, hist = res
    monitors.ACTIVE[0] = ctx
    try:
        check_constellation(ctx, m, spec, okind)
        ctx.sig(spec, okind, "constellation")
        ctx.sample("constellation", {"spec": spec, "offset_history": hist,
                                     "symbols_head": np.asarray(m.symbols)[:4]})
        # round trip: every index once, in several shapes
        allidx = np.arange(M)
        rng.shuffle(allidx)
        for kind in SHAPES:
            ia = reshape_kind(allidx, kind, rng)
            if cls == "BPSK" and kind == "0d":
                ia = np.array(int(rng.integers(0, 2)))
            round_trip(ctx, m, spec, okind, ia, kind)
        # python scalar index
        round_trip(ctx, m, spec, okind, int(rng.integers(0, M)), "pyint")
        # all-equal array
        round_trip(ctx, m, spec, okind,
                   np.full(7, int(rng.integers(0, M))), "all-equal")
        # index >= M must raise ValueError and emit nothing
        for bad in (M, M + 1, 2 * M + 3, int(rng.integers(M, 10 * M + 5))):
            arr = np.array([0, bad, 1]) if rng.random() < 0.5 else np.array([bad])
            try:
                out = m.modulate(arr)
                ctx.ev("reject-index", False, cls="emitted",
                       detail={"spec": spec, "index": bad, "out": out})
            except ValueError:
                ctx.ev("reject-index", True)
            except Exception as e:
                ctx.ev("reject-index", False, cls="wrong-exception",
                       detail={"spec": spec, "index": bad, "exc": repr(e)})
    finally:
        monitors.ACTIVE[0] = None


def round_trip(ctx, m, spec, okind, ia, kind):
    d = lambda: {"spec": spec, "okind": okind, "kind": kind,
                 "indexes": np.asarray(ia).ravel()[:10]}
    ok, y = ctx.call("round-trip", m.modulate, ia, detail=d)
    if not ok:
        return
    ia_arr = np.asarray(ia)
    y_arr = np.asarray(y)
    sym = np.asarray(m.symbols)
    ctx.ev("modulate-table", y_arr.shape == ia_arr.shape and
           np.array_equal(y_arr, sym[ia_arr]), detail=d)
    if ia_arr.ndim and ia_arr.size:
        # a transmitter modulates the next block (same size, other indexes) before
        # the first one is demodulated: the first block belongs to the caller
        keep = np.array(y_arr, copy=True)
        other = (ia_arr + 1 + (np.arange(ia_arr.size).reshape(ia_arr.shape) % max(m.M - 1, 1))) % m.M
        ok2, _y2 = ctx.call("round-trip", m.modulate, other.astype(ia_arr.dtype), detail=d)
        if ok2:
            ctx.ev("round-trip", np.array_equal(np.asarray(y), keep),
                   cls="earlier-block-changed-by-later-modulate", detail=d)
    ok, back = ctx.call("round-trip", m.demodulate, y_arr if y_arr.ndim or True else y,
                        detail=d)
    if not ok:
        return
    good = np.asarray(back).shape == ia_arr.shape and np.array_equal(back, ia_arr)
    ctx.ev("round-trip", good, cls="mismatch",
           detail=lambda: {**d(), "back": np.asarray(back).ravel()[:10]})
    if ia_arr.size:
        ctx.sig(spec, okind, "roundtrip", kind)


def case_detect(ctx, rng, idx):
    sp = specs(ctx.tier)
    spec = sp[idx % len(sp)]
    cls, M = spec
    okind = "none"
    if cls in ("PSK", "QPSK"):
        okind = OFFSET_KINDS[int(rng.integers(0, len(OFFSET_KINDS)))]
        if cls == "QPSK" and okind in ("ctor", "pi/M", "setconst"):
            okind = "set1"
    m, hist = build(spec, okind, rng)
    n = 600 if M <= 256 else (200 if M <= 1024 else 80)
    if ctx.tier == "thorough":
        n *= 4
    sclass = SAMPLE_CLASSES[(idx // len(sp)) % len(SAMPLE_CLASSES)]
    r = gen_samples(m.symbols, sclass, n, rng)
    if cls == "BPSK" and sclass == "axes":
        pass
    shape_kind = ["1d", "1d", "2d", "3d", "0d", "2d-T", "2d-F", "3d-swap", "strided"][
        int(rng.integers(0, 9))]
    r = reshape_kind(r, shape_kind, rng)
    if cls == "BPSK" and rng.random() < 0.3:
        r = np.asarray(r.real)      # BPSK is commonly fed real samples
    elif cls != "BPSK" and rng.random() < 0.12:
        # received values that happen to be held in a real (float or integer) array
        r = np.asarray(r.real) if rng.random() < 0.6 else np.rint(np.asarray(r.real) * 3).astype(
            [np.int64, np.int32][int(rng.integers(0, 2))])
    monitors.ACTIVE[0] = ctx
    try:
        check_detection(ctx, m, spec, okind, r, sclass)
    finally:
        monitors.ACTIVE[0] = None
    ctx.sample("detect:" + sclass.split(":")[0],
               {"spec": spec, "offset_history": hist, "sclass": sclass,
                "samples_head": np.asarray(r).ravel()[:3]})


def _pow2(m):
    return m >= 1 and (m & (m - 1)) == 0


def case_reject(ctx, rng, idx):
    """Exhaustive: every unsupported cardinality must be refused by the
    constructor (any exception), never produce a modulator."""
    lo = idx * 64
    for M in range(lo, lo + 64):
        if 3 <= M <= 1025 and not _pow2(M):
            try:
                m = F.PSK(M)
                ctx.ev("reject-M", False, cls="PSK-accepted",
                       detail={"M": M, "symbols": np.asarray(m.symbols).size})
            except Exception:
                ctx.ev("reject-M", True)
        if 2 <= M <= 4097 and not (_pow2(M) and (M.bit_length() - 1) % 2 == 0):
            try:
                m = F.QAM(M)
                ctx.ev("reject-M", False, cls="QAM-accepted",
                       detail={"M": M, "symbols": np.asarray(m.symbols).size})
            except Exception:
                ctx.ev("reject-M", True)
    ctx.sig("reject", idx)


def case_psk_offsets(ctx, rng, idx):
    """Many phase offsets on fresh PSK objects (constructor argument and public
    setter): the table keeps exactly M distinct unit-energy points, every index
    round-trips and index M is refused."""
    M = int(2 ** rng.integers(1, 9 if ctx.tier == "quick" else 11))
    off = [float(rng.uniform(-7, 7)), float(rng.uniform(0, 2 * math.pi)),
           float(rng.integers(-8, 9)) * math.pi / M,
           float(rng.uniform(0, 2 * math.pi)) + 2 * math.pi * int(rng.integers(-3, 4))][
        int(rng.integers(0, 4))]
    via = ["setter", "ctor", "setter-after-use"][int(rng.integers(0, 3))]
    spec = ("PSK", M)
    tag = {"spec": spec, "offset": off, "via": via}

    def make():
        if via == "ctor":
            return F.PSK(M, off)
        m = F.PSK(M)
        if via == "setter-after-use":
            m.demodulate(m.modulate(np.arange(M)))
        m.setPhaseOffset(off)
        return m
    okc, m = ctx.call("table-size", make, cls="offset-raised", detail=tag)
    if not okc:
        return
    monitors.ACTIVE[0] = ctx
    try:
        check_constellation(ctx, m, spec, "offset:" + via)
        allidx = np.arange(M)
        okc, back = ctx.call("round-trip", lambda: m.demodulate(m.modulate(allidx)), detail=tag)
        if okc:
            ctx.ev("round-trip", np.array_equal(np.asarray(back), allidx), cls="mismatch:offset",
                   detail=tag)
        try:
            out = m.modulate(np.array([0, M]))
            ctx.ev("reject-index", False, cls="emitted:offset",
                   detail={**tag, "emitted": np.asarray(out)})
        except ValueError:
            ctx.ev("reject-index", True)
        except Exception as e:
            ctx.ev("reject-index", False, cls="wrong-exception:offset",
                   detail={**tag, "exc": repr(e)})
    finally:
        monitors.ACTIVE[0] = None
    ctx.sig("psk-offset", M, via, int(off // 1))


# ---- contracts on the real methods (fire on every call, also nested ones) --
def _post_modulate(ctx, args, kwargs, result):
    self = args[0]
    data = args[1] if len(args) > 1 else kwargs.get("inputData")
    ctx.ev("contract-modulate-shape",
           np.shape(result) == np.shape(data),
           detail=lambda: {"cls": type(self).__name__, "in": np.shape(data),
                           "out": np.shape(result)})


def _post_demodulate(ctx, args, kwargs, result):
    self = args[0]
    data = args[1] if len(args) > 1 else kwargs.get("receivedData")
    res = np.asarray(result)
    ok = res.shape == np.shape(data)
    if ok and res.size:
        ok = bool(res.min() >= 0 and res.max() < self.M)
    ctx.ev("contract-demodulate-range", ok,
           detail=lambda: {"cls": type(self).__name__, "in": np.shape(data),
                           "out": res.shape})


for _cls in (F.Modulator, F.BPSK):
    monitors.attach_ensure(_cls, "modulate", _post_modulate)
    monitors.attach_ensure(_cls, "demodulate", _post_demodulate)


NSPEC_Q = len(specs("quick"))
NSPEC_T = len(specs("thorough"))
GENS = {
    "constellation": Gen(case_constellation, NSPEC_Q * len(OFFSET_KINDS),
                         NSPEC_T * len(OFFSET_KINDS), exhaustive=True),
    "reject": Gen(case_reject, 4097 // 64 + 1, 4097 // 64 + 1, exhaustive=True),
    "psk-offsets": Gen(case_psk_offsets, 700, 120000),
    "detect": Gen(case_detect, NSPEC_Q * len(SAMPLE_CLASSES) * 12,
                  NSPEC_T * len(SAMPLE_CLASSES) * 400),
}
MIN_EVALS = {"demodulate-ml": 1000, "round-trip": 100, "reject-M": 3000,
             "reject-index": 50, "unit-energy": 10, "distinct-points": 10,
             "contract-demodulate-range": 100}
