"""Core of the runtime-monitoring harness.

A property module (vf/cXX.py) defines

    ID      = "C01"
    RULE    = "how cases are generated and what makes one distinct / non-trivial"
    GENS    = {name: Gen(fn, quick=n, thorough=n, exhaustive=bool)}
    MIN_EVALS = {monitor: n}       # deciding monitors that must be reached
    def classify(v) -> finding id or None   (optional)

and every ``fn(ctx, rng, idx)`` runs ONE case against the real code, reporting
each oracle evaluation through ``ctx.ev(...)``.  A case is reproducible from
``(gen name, seed, idx)`` -- that triple is what a replay file stores.

Verdicts are three valued: exit 0 held, exit 1 violation (not a listed known
finding), exit 2 inconclusive (a deciding monitor was never reached, a worker
died or timed out, the harness itself raised).
"""
from __future__ import annotations

import hashlib
import json
import os
import shutil
import subprocess
import sys
import time
import traceback
from dataclasses import dataclass
from typing import Any, Callable, Dict, List, Optional

VERIF = os.path.dirname(os.path.dirname(os.path.abspath(__file__)))
REPO = os.path.abspath(os.environ.get("VF_REPO", "/repo"))
DEPS = os.path.join(VERIF, ".deps")
WORK_ROOT = os.path.join(VERIF, ".work")
EVIDENCE_DIR = os.environ.get("VF_EVIDENCE_DIR") or os.path.join(VERIF, "evidence")
REPLAY_DIR = os.environ.get("VF_REPLAY_DIR") or os.path.join(VERIF, "replays")
PY = os.environ.get("VF_PYTHON", "/venv/bin/python")


def setup_paths() -> None:
    """Put the tree under test first on sys.path and check the provenance."""
    if sys.path[0] != REPO:
        sys.path.insert(0, REPO)
    if DEPS not in sys.path:
        sys.path.append(DEPS)
    import pyphysim  # noqa
    f = os.path.abspath(pyphysim.__file__)
    if not f.startswith(REPO + os.sep):
        raise SystemExit("PROVENANCE ERROR: pyphysim imported from %s, "
                         "not from %s" % (f, REPO))


def provenance() -> Dict[str, Any]:
    import pyphysim
    out = {"repo": REPO, "pyphysim_file": os.path.abspath(pyphysim.__file__)}
    try:
        out["head"] = subprocess.run(
            ["git", "-C", REPO, "rev-parse", "HEAD"], capture_output=True,
            text=True, timeout=20).stdout.strip()
        out["dirty"] = bool(subprocess.run(
            ["git", "-C", REPO, "status", "--porcelain", "--untracked-files=no"],
            capture_output=True, text=True, timeout=20).stdout.strip())
    except Exception as e:  # pragma: no cover
        out["git_error"] = repr(e)
    return out


@dataclass
class Gen:
    fn: Callable
    quick: int
    thorough: int
    exhaustive: bool = False   # True: the index space IS a finite sub-space
    #                            that the tier enumerates completely
    note: str = ""


def jsonable(o: Any, depth: int = 0) -> Any:
    """Best effort conversion of witnesses / samples to JSON."""
    import numpy as np
    if depth > 8:
        return repr(o)
    if o is None or isinstance(o, (bool, int, str)):
        return o
    if isinstance(o, float):
        return o if o == o and abs(o) != float("inf") else repr(o)
    if isinstance(o, complex):
        return {"re": jsonable(o.real), "im": jsonable(o.imag)}
    if isinstance(o, np.generic):
        return jsonable(o.item(), depth + 1)
    if isinstance(o, np.ndarray):
        if o.size > 400:
            return {"ndarray_shape": list(o.shape), "dtype": str(o.dtype),
                    "head": jsonable(o.ravel()[:16].tolist(), depth + 1)}
        if o.dtype == object:
            return [jsonable(x, depth + 1) for x in o.tolist()]
        if np.iscomplexobj(o):
            return {"re": jsonable(o.real.tolist(), depth + 1),
                    "im": jsonable(o.imag.tolist(), depth + 1)}
        return jsonable(o.tolist(), depth + 1)
    if isinstance(o, dict):
        return {str(k): jsonable(v, depth + 1) for k, v in o.items()}
    if isinstance(o, (list, tuple)):
        return [jsonable(x, depth + 1) for x in o]
    if isinstance(o, (set, frozenset)):
        return sorted((jsonable(x, depth + 1) for x in o), key=repr)
    if isinstance(o, slice):
        return "slice(%r,%r,%r)" % (o.start, o.stop, o.step)
    return repr(o)


def sig_hash(sig: Any) -> int:
    return int.from_bytes(
        hashlib.blake2b(repr(sig).encode(), digest_size=8).digest(), "big")


class Ctx:
    """Recorder shared by the monitors of one run (one process)."""

    MAX_WITNESS_PER_CLASS = 3
    MAX_SAMPLES = 12

    def __init__(self, pid: str, tier: str, seed: int):
        self.pid = pid
        self.tier = tier
        self.seed = seed
        self.gen = ""
        self.case = -1
        self.monitor_evals: Dict[str, int] = {}
        self.sigs: set = set()
        self.tallies: Dict[str, int] = {}
        self.samples: List[Any] = []
        self.viol_count: Dict[str, int] = {}      # class -> count
        self.witnesses: Dict[str, List[dict]] = {}  # class -> first witnesses
        self.harness_errors: List[str] = []
        self.cases_run: Dict[str, int] = {}
        self.info: Dict[str, Any] = {}
        self.stats: Dict[str, float] = {}   # worst observed error / tolerance
        self._sample_kinds: Dict[str, int] = {}
        self._gens_sampled: set = set()
        self._last_sig: Any = None
        self.classify: Optional[Callable] = None

    # -- results handed to the caller stay the caller's ---------------------
    def hold(self, monitor: str, label: str, value: Any, detail: Any = None) -> None:
        """Keep `value` (an array, or a list/tuple of arrays, exactly as the
        library returned it) by reference together with a snapshot; every held
        value is compared with its snapshot when the case ends (check_held), i.e.
        after all later calls on the same objects."""
        import numpy as _np

        def snap(v):
            if isinstance(v, (list, tuple)):
                return [snap(x) for x in v]
            if isinstance(v, _np.ndarray) and v.dtype == object:
                return [snap(x) for x in v.ravel()]
            return _np.array(v, copy=True)
        held = self.__dict__.setdefault("_held", [])
        if len(held) < 64:
            held.append((monitor, label, value, snap(value), detail))

    def check_held(self) -> None:
        import numpy as _np

        def same(v, s0):
            if isinstance(v, (list, tuple)):
                return len(v) == len(s0) and all(same(a, b) for a, b in zip(v, s0))
            if isinstance(v, _np.ndarray) and v.dtype == object:
                return v.size == len(s0) and all(same(a, b) for a, b in zip(v.ravel(), s0))
            a = _np.asarray(v)
            return a.shape == s0.shape and bool(_np.array_equal(a, s0, equal_nan=True)
                                                if a.dtype.kind in "fc" else
                                                _np.array_equal(a, s0))
        held = self.__dict__.get("_held", [])
        self.__dict__["_held"] = []
        for monitor, label, value, s0, detail in held:
            try:
                ok = same(value, s0)
            except Exception:           # noqa: BLE001 - incomparable = changed
                ok = False
            self.ev(monitor, ok, cls="earlier-result-changed-by-later-call:" + label,
                    detail=detail)

    # -- recording ---------------------------------------------------------
    def ev(self, monitor: str, ok: Any, cls: Optional[str] = None,
           detail: Any = None, n: int = 1) -> bool:
        """One (or n) oracle evaluation(s) of `monitor`; `ok` false = violation.

        `cls` is the violation class (mechanism-level key: one VIOLATION line
        and one replay file per class), `detail` a dict or a callable
        returning one, evaluated only on failure."""
        self.monitor_evals[monitor] = self.monitor_evals.get(monitor, 0) + n
        ok = bool(ok)
        if not ok:
            self.violation(monitor, cls, detail)
        return ok

    def violation(self, monitor: str, cls: Optional[str], detail: Any) -> None:
        key = "%s/%s" % (monitor, cls) if cls else monitor
        w = None
        if self.classify is not None:
            # every violation is classified when it is recorded, so that a
            # listed known finding can never absorb a different failure that
            # happens to share its monitor / class
            w = self._witness(monitor, cls, key, detail)
            try:
                fid = self.classify(w)
            except Exception as e:  # pragma: no cover
                fid = None
                self.harness_errors.append("classify: %r" % (e, ))
            if fid:
                key = "%s|%s" % (key, fid)
                w["key"] = key
                w["finding"] = fid
        self.viol_count[key] = self.viol_count.get(key, 0) + 1
        lst = self.witnesses.setdefault(key, [])
        if len(lst) < self.MAX_WITNESS_PER_CLASS:
            lst.append(w if w is not None
                       else self._witness(monitor, cls, key, detail))

    def _witness(self, monitor, cls, key, detail) -> dict:
        if callable(detail):
            try:
                detail = detail()
            except Exception as e:  # pragma: no cover
                detail = {"detail_error": repr(e)}
        return {"property": self.pid, "monitor": monitor, "cls": cls,
                "key": key, "gen": self.gen, "case": self.case,
                "seed": self.seed, "tier": self.tier,
                "detail": jsonable(detail)}

    def sig(self, *sig: Any) -> None:
        """Register the structural signature of a non-trivial case."""
        self.sigs.add(sig_hash(sig))
        self._last_sig = sig

    def stat(self, name: str, value: float) -> None:
        """Track the maximum of `value` (typically observed error divided by
        the tolerance: < 1 means head-room)."""
        v = float(value)
        if v == v and v > self.stats.get(name, -1.0):
            self.stats[name] = v

    def within(self, monitor: str, err: float, tol: float, cls=None,
               detail=None) -> bool:
        """ev(monitor, err <= tol) + statistics of err / tol."""
        err = float(err)
        self.stat(monitor, err / tol if tol > 0 else (0.0 if err == 0 else float("inf")))
        ok = err <= tol     # NaN fails
        if not ok and detail is not None:
            d0 = detail
            detail = lambda: {**(d0() if callable(d0) else d0),
                              "error": err, "tolerance": tol}
        elif not ok:
            detail = {"error": err, "tolerance": tol}
        return self.ev(monitor, ok, cls=cls, detail=detail)

    def tally(self, name: str, n: int = 1) -> None:
        self.tallies[name] = self.tallies.get(name, 0) + n

    def sample(self, kind: str, obj: Any) -> None:
        """Keep the first sample of each kind (up to MAX_SAMPLES kinds)."""
        if kind in self._sample_kinds or len(self.samples) >= self.MAX_SAMPLES:
            return
        self._sample_kinds[kind] = 1
        self.samples.append({"kind": kind, "gen": self.gen, "case": self.case,
                             "case_data": jsonable(obj)})

    def call(self, monitor: str, fn: Callable, *a: Any, cls: str = "exception",
             detail: Any = None, **kw: Any):
        """Call into the code under test; an exception on an in-domain input is
        a violation of `monitor`.  Returns (ok, result)."""
        try:
            return True, fn(*a, **kw)
        except Exception as e:
            tb = traceback.format_exc(limit=-6)
            d = detail() if callable(detail) else (detail or {})
            d = dict(d)
            d.update({"exception": repr(e), "traceback": tb,
                      "call": getattr(fn, "__qualname__", repr(fn))})
            self.monitor_evals[monitor] = self.monitor_evals.get(monitor, 0) + 1
            self.violation(monitor, "%s:%s" % (cls, type(e).__name__), d)
            return False, None

    # -- (de)serialisation for the sharded tier ----------------------------
    def dump(self) -> dict:
        return {"monitor_evals": self.monitor_evals, "sigs": sorted(self.sigs),
                "tallies": self.tallies, "samples": self.samples,
                "viol_count": self.viol_count, "witnesses": self.witnesses,
                "harness_errors": self.harness_errors,
                "cases_run": self.cases_run, "info": self.info,
                "stats": self.stats}

    def absorb(self, d: dict) -> None:
        for k, v in d["monitor_evals"].items():
            self.monitor_evals[k] = self.monitor_evals.get(k, 0) + v
        self.sigs.update(d["sigs"])
        for k, v in d["tallies"].items():
            self.tallies[k] = self.tallies.get(k, 0) + v
        for s in d["samples"]:
            if s["kind"] not in self._sample_kinds and \
                    len(self.samples) < self.MAX_SAMPLES:
                self._sample_kinds[s["kind"]] = 1
                self.samples.append(s)
        for k, v in d["viol_count"].items():
            self.viol_count[k] = self.viol_count.get(k, 0) + v
        for k, v in d["witnesses"].items():
            lst = self.witnesses.setdefault(k, [])
            lst.extend(v[:max(0, self.MAX_WITNESS_PER_CLASS - len(lst))])
        self.harness_errors.extend(d["harness_errors"])
        for k, v in d["cases_run"].items():
            self.cases_run[k] = self.cases_run.get(k, 0) + v
        for k, v in d.get("info", {}).items():
            self.info.setdefault(k, v)
        for k, v in d.get("stats", {}).items():
            self.stat(k, v)


def case_rng(seed: int, gen: str, idx: int):
    import numpy as np
    return np.random.default_rng(
        [seed & 0xFFFFFFFF, sig_hash(gen) & 0xFFFFFFFF, idx])


def run_cases(mod, ctx: Ctx, shard: int, nshards: int,
              only: Optional[str] = None, deadline: Optional[float] = None
              ) -> None:
    """Run this shard's slice of every generator's case index space."""
    for name, g in mod.GENS.items():
        if only and name != only:
            continue
        n = g.quick if ctx.tier == "quick" else g.thorough
        ctx.gen = name
        for idx in range(shard, n, nshards):
            if deadline is not None and time.time() > deadline:
                ctx.harness_errors.append(
                    "watchdog: gen %s stopped at case %d of %d" % (name, idx, n))
                break
            run_one(mod, ctx, name, idx)
            fired = sum(1 for e in ctx.harness_errors if e.startswith("watchdog: gen %s case" % name))
            if fired >= 3:
                # the code under test does not terminate on this workload: stop
                # the generator instead of waiting the watchdog out case by case
                ctx.harness_errors.append(
                    "watchdog: gen %s abandoned at case %d of %d after %d cases did not "
                    "terminate" % (name, idx, n, fired))
                break


import contextlib


@contextlib.contextmanager
def silence_stdout():
    """Send everything written to stdout (Python level and file descriptor 1)
    to a scratch file while library code that insists on printing runs."""
    sys.stdout.flush()
    saved_fd = os.dup(1)
    sink = os.path.join(workdir(), "stdout.sink")
    devnull = os.open(sink, os.O_WRONLY | os.O_CREAT | os.O_TRUNC)
    saved_py = sys.stdout
    try:
        os.dup2(devnull, 1)
        sys.stdout = open(sink, "w")
        yield
    finally:
        try:
            sys.stdout.close()
        except Exception:
            pass
        sys.stdout = saved_py
        try:
            saved_py.flush()      # text that was written to the original object's
        except Exception:         # buffer in the meantime also goes to the sink
            pass
        os.dup2(saved_fd, 1)
        os.close(saved_fd)
        os.close(devnull)


class CaseTimeout(BaseException):
    """A single case exceeded its generous wall-clock watchdog: inconclusive."""


_ARMED = [False]


def _alarm(signum, frame):          # pragma: no cover
    if _ARMED[0]:
        _ARMED[0] = False
        raise CaseTimeout()


def run_one(mod, ctx: Ctx, name: str, idx: int) -> None:
    import signal
    g = mod.GENS[name]
    ctx.gen, ctx.case = name, idx
    rng = case_rng(ctx.seed, name, idx)
    # wall-clock watchdog (its firing is INCONCLUSIVE, never a violation); a
    # module whose single cases legitimately take a minute on an idle machine
    # (C07 forks ~80 simulations per big case) declares a larger CASE_TIMEOUT
    limit = float(os.environ.get("VF_CASE_TIMEOUT", getattr(mod, "CASE_TIMEOUT", 120)))
    old = None
    try:
        old = signal.signal(signal.SIGALRM, _alarm)
        signal.setitimer(signal.ITIMER_REAL, limit)
    except (ValueError, AttributeError):      # not in the main thread / no SIGALRM
        old = None
    try:
        _ARMED[0] = old is not None
        ctx.__dict__["_held"] = []
        g.fn(ctx, rng, idx)
        ctx.check_held()
    except CaseTimeout:
        ctx.harness_errors.append("watchdog: gen %s case %d exceeded %.0f s" % (name, idx, limit))
    except Exception as e:
        # An exception that escapes a case.  If it was RAISED INSIDE the library
        # under test (deepest frame in <repo>/pyphysim) by a call the driver did
        # not expect to fail, it is library behaviour and therefore a violation
        # ("... completes" is part of every property; on the unchanged tree no
        # generator produces one); anything raised in the harness itself is a
        # harness error = inconclusive.
        tb = e.__traceback__
        deepest = None
        while tb is not None:
            deepest = tb.tb_frame
            tb = tb.tb_next
        fn = os.path.abspath(deepest.f_code.co_filename) if deepest is not None else ""
        if fn.startswith(os.path.join(REPO, "pyphysim") + os.sep):
            ctx.ev("no-unexpected-exception", False,
                   cls="%s@%s:%s" % (type(e).__name__, os.path.basename(fn),
                                     deepest.f_code.co_name),
                   detail={"exception": repr(e),
                           "traceback": traceback.format_exc(limit=-6)})
        else:
            ctx.harness_errors.append("gen %s case %d: %s" % (
                name, idx, traceback.format_exc(limit=-5)))
    finally:
        try:
            _ARMED[0] = False
        except CaseTimeout:         # fired exactly here: already disarmed by the handler
            pass
        if old is not None:
            signal.setitimer(signal.ITIMER_REAL, 0)
            signal.signal(signal.SIGALRM, old)
        from . import monitors as _m     # a case interrupted mid-way must not leave
        _m.ACTIVE[0] = None              # its contracts recording into the next one
    ctx.cases_run[name] = ctx.cases_run.get(name, 0) + 1
    if name not in ctx._gens_sampled:
        # every generator shows at least one of its cases in the evidence
        if any(smp["gen"] == name for smp in ctx.samples):
            ctx._gens_sampled.add(name)
        elif getattr(ctx, "_last_sig", None) is not None:
            ctx._gens_sampled.add(name)
            ctx.sample("case-of:" + name, {"signature_of_the_case": list(ctx._last_sig)})


# ---------------------------------------------------------------------------
def load_findings(pid: str) -> Dict[str, dict]:
    path = os.path.join(VERIF, "known_findings.json")
    try:
        with open(path) as f:
            data = json.load(f)
    except FileNotFoundError:
        return {}
    return {e["id"]: e for e in data.get("findings", [])
            if e.get("property") == pid}


def finish(mod, ctx: Ctx, t0: float, nworkers: int, dead_workers: List[str]
           ) -> int:
    """Decide the verdict, write evidence + replays, print the lines."""
    pid = mod.ID
    findings = load_findings(pid)
    known_seen: Dict[str, int] = {}
    new_viol: Dict[str, dict] = {}
    for key, wl in ctx.witnesses.items():
        fid = key.split("|", 1)[1] if "|" in key else None
        if fid is not None and fid in findings and \
                findings[fid].get("status") == "known":
            known_seen[fid] = known_seen.get(fid, 0) + ctx.viol_count[key]
        else:
            new_viol[key] = wl[0]

    os.makedirs(REPLAY_DIR, exist_ok=True)
    lines = []
    for key, w in sorted(new_viol.items()):
        fn = "%s_%s.json" % (pid, hashlib.blake2b(
            key.encode(), digest_size=5).hexdigest())
        path = os.path.join(REPLAY_DIR, fn)
        with open(path, "w") as f:
            json.dump(w, f, indent=1)
        lines.append("VIOLATION property=%s replay=%s  # %s (x%d) gen=%s case=%d"
                     % (pid, path, key, ctx.viol_count[key], w["gen"],
                        w["case"]))
    for f, n in sorted(known_seen.items()):
        lines.append("KNOWN-FINDING: property=%s %s -- %s (observed %d times)"
                     % (pid, f, findings[f].get("what", ""), n))

    inconclusive: List[str] = []
    for m, need in getattr(mod, "MIN_EVALS", {}).items():
        have = ctx.monitor_evals.get(m, 0)
        if have < need:
            inconclusive.append("monitor %s reached %d < %d times"
                                % (m, have, need))
    for e in ctx.harness_errors:
        inconclusive.append("harness: " + e.strip().splitlines()[-1][:300])
    for d in dead_workers:
        inconclusive.append(d)

    evaluations = int(sum(ctx.monitor_evals.values()))
    wall = time.time() - t0
    exh = [n for n, g in mod.GENS.items() if g.exhaustive and
           ctx.cases_run.get(n, 0) >= (g.quick if ctx.tier == "quick"
                                       else g.thorough)]
    ev = {
        "property_id": pid, "tier": ctx.tier, "seed": ctx.seed,
        "level": getattr(mod, "LEVEL", "exploration"),
        "coverage": {
            "evaluations": evaluations,
            "distinct_nontrivial": len(ctx.sigs),
            "rule": mod.RULE,
            "samples": ctx.samples,
            "exhaustive": False,
            "exhaustive_subspaces": exh,
            "monitor_evals": dict(sorted(ctx.monitor_evals.items())),
            "cases_run": ctx.cases_run,
            "tallies": dict(sorted(ctx.tallies.items())),
            "workers": nworkers,
            "known_findings_observed": known_seen,
            "violation_classes": {k: ctx.viol_count[k] for k in new_viol},
            "inconclusive_reasons": inconclusive[:20],
            "info": ctx.info,
            "worst_error_over_tolerance": {k: float("%.3g" % min(v, 1e300)) for k, v in sorted(ctx.stats.items())},
            "provenance": provenance(),
        },
        "assumptions": getattr(mod, "ASSUMPTIONS", []),
        "wall_s": round(wall, 3),
        "violations": int(sum(ctx.viol_count[k] for k in new_viol)),
    }
    os.makedirs(EVIDENCE_DIR, exist_ok=True)
    tmp = os.path.join(EVIDENCE_DIR, ".%s.json.tmp" % pid)
    with open(tmp, "w") as f:
        json.dump(ev, f, indent=1)
    os.replace(tmp, os.path.join(EVIDENCE_DIR, "%s.json" % pid))

    for ln in lines:
        print(ln)
    top = sorted(ctx.monitor_evals.items(), key=lambda kv: -kv[1])
    print("%s %s seed=%d: %d oracle evaluations over %d cases, %d distinct "
          "signatures, %d monitors, %.1fs" % (
              pid, ctx.tier, ctx.seed, evaluations,
              sum(ctx.cases_run.values()), len(ctx.sigs), len(top), wall))
    if new_viol:
        return 1
    if inconclusive:
        for r in inconclusive[:10]:
            print("INCONCLUSIVE property=%s reason=%s" % (pid, r))
        return 2
    return 0


def workdir() -> str:
    d = os.path.join(WORK_ROOT, str(os.getpid()))
    os.makedirs(d, exist_ok=True)
    return d


def cleanup_workdir() -> None:
    shutil.rmtree(os.path.join(WORK_ROOT, str(os.getpid())),
                  ignore_errors=True)


def new_ctx(mod, tier: str, seed: int) -> Ctx:
    ctx = Ctx(mod.ID, tier, seed)
    ctx.classify = getattr(mod, "classify", None)
    return ctx
