"""C02 -- OFDM round trip and exact one-tap equalisation when the cyclic
prefix covers the channel."""
from __future__ import annotations

import math

import numpy as np
import scipy.fft

from .core import Gen
from .num import EPS, fro

from pyphysim.modulators import ofdm as OF
from pyphysim.channels import fading as FA
from pyphysim.channels import fading_generators as FG

ID = "C02"
RULE = ("(fft size in {2,4,6,7,8,12,16,32,64,128,256,1024,2048} incl. odd "
        "sizes, cp in 0..fft with both ends forced, even used-subcarrier count "
        "2..fft with used = 2 and used = fft forced) x complex inputs of length "
        "1..4*used (non-multiples included) x, for the channel part, static "
        "tapped-delay-line channels (zero-Doppler Jakes) with 1-6 taps, "
        "sorted / unsorted / colliding delays and memory in {0,1,cp-1,cp} "
        "with memory = cp = fft forced.  The oracle checks length, exact "
        "prefix copies, the spectral mask through an independent DFT of every "
        "symbol body, the round trip, and the equalised symbols against the "
        "input using the response reported after the transmission.  Signature "
        "= (fft, cp class, used class, length class, memory class); "
        "non-trivial = more than one subcarrier pair or a multi-tap channel.  "
        "Tap profiles include echoes 31-60 dB below the strongest tap; a third "
        "of the round trips follow a refused set_parameters call; received "
        "buffers are demodulated twice and their values compared before/after.  "
        "The channel-1x1 generator repeats the equalisation law over channels "
        "created through the antenna-aware interface (TdlMimoChannel 1x1, "
        "SuMimoChannel, SuChannel with a path loss of 0..60 dB) in either link "
        "direction. "
        "The channel-1x1 generator also covers one-transmit / N-receive channels (1xN in the reverse direction, Nx1 forward) fed with the 1-D signal, one receive antenna equalised with its own taps; in 30 % of the channel cases the equalizer is created before the modem is re-configured with set_parameters. "
        "One channel case in 80 is a 1024/2048-point frame of 4-7 symbols. "
        "A quarter of the re-configured modems get their three public attributes written directly; 6 % of the inputs are signals of magnitude 1e-17..1e-12. ")
ASSUMPTIONS = ["a time-invariant channel is a Jakes generator with zero Doppler",
               "cases with min|H| < 1e-6 max|H| over the used subcarriers are "
               "tallied as ill-conditioned (the equaliser divides by H)",
               "the caller's array is passed as a copy to demodulate (the "
               "library reshapes its argument in place)"]

FFTS = [2, 4, 6, 7, 8, 12, 16, 32, 64, 128, 256, 1024, 2048]


def rand_c(rng, n):
    return (rng.standard_normal(n) + 1j * rng.standard_normal(n)) / math.sqrt(2)


def dft_rows(a):
    """Independent DFT of each row: defining sum for small sizes."""
    n = a.shape[1]
    if n <= 64:
        k = np.arange(n)
        E = np.exp(-2j * np.pi * np.outer(k, k) / n)
        return a @ E.T
    return scipy.fft.fft(a, axis=1)


def expected_used_bins(fft, used):
    if used == fft:
        return set(range(fft))
    half = used // 2
    return {k % fft for k in list(range(1, half + 1)) + list(range(-half, 0))}


def gen_config(rng, idx):
    fft = FFTS[idx % len(FFTS)]
    c = rng.random()
    cp = 0 if c < 0.15 else (fft if c < 0.3 else int(rng.integers(0, fft + 1)))
    maxused = fft - (fft % 2)
    u = rng.random()
    used = 2 if u < 0.15 else (maxused if u < 0.4 else 2 * int(rng.integers(1, maxused // 2 + 1)))
    return fft, cp, used


def cls3(v, lo, hi):
    return "min" if v == lo else ("max" if v == hi else "mid")


def case_roundtrip(ctx, rng, idx):
    fft, cp, used = gen_config(rng, idx)
    tag = {"fft": fft, "cp": cp, "used": used}
    reconf = rng.random() < 0.4
    tag["reconfigured"] = reconf
    if reconf:
        # an object that was built and USED with other parameters (often the
        # same number of used subcarriers) and then reconfigured
        fft0 = int(rng.choice([f for f in FFTS if f != fft and f <= 256]))
        used0 = used if (used <= fft0 and rng.random() < 0.6) else \
            2 * int(rng.integers(1, (fft0 - fft0 % 2) // 2 + 1))
        cp0 = int(rng.integers(0, fft0 + 1))

        def build():
            o = OF.OFDM(fft0, cp0, used0)
            o.demodulate(np.asarray(o.modulate(rand_c(rng, used0 + 1))).copy())
            o.get_used_subcarrier_indexes()
            if rng.random() < 0.25:
                # the three public attributes written one by one (as the repository's
                # own tests do) instead of through set_parameters
                o.fft_size, o.cp_size, o.num_used_subcarriers = fft, cp, used
                tag["reconfigured"] = "attributes-written-directly"
            else:
                o.set_parameters(fft, cp, used)
            return o
        tag["before"] = [fft0, cp0, used0]
        okc, o = ctx.call("round-trip", build, cls="reconfigure", detail=tag)
    else:
        okc, o = ctx.call("round-trip", OF.OFDM, fft, cp, used if rng.random() < 0.8 or
                          used != fft else None, cls="constructor", detail=tag)
    if not okc:
        return
    if rng.random() < 0.3:
        # a reconfiguration that is refused leaves the object as it was
        bad = [(fft, cp, used + 2 if used + 2 > fft else fft + 2), (fft, cp, 3), (fft, cp, 0),
               (2 * fft, cp, 2 * fft + 2), (fft, fft + 1, used), (fft, -1, used)][
            int(rng.integers(0, 6))]
        try:
            o.set_parameters(*bad)
            ctx.ev("rejects-invalid-parameters", False, cls="set_parameters-accepted",
                   detail={**tag, "bad": bad})
            return
        except ValueError:
            ctx.ev("rejects-invalid-parameters", True)
        ctx.ev("rejects-invalid-parameters",
               (o.fft_size, o.cp_size, o.num_used_subcarriers) == (fft, cp, used),
               cls="state-changed-by-refused-call",
               detail={**tag, "bad": bad, "now": [o.fft_size, o.cp_size, o.num_used_subcarriers]})
        tag["refused-reconfiguration"] = list(bad)
    lc = rng.random()
    n = used * int(rng.integers(1, 5)) if lc < 0.3 else int(rng.integers(1, 4 * used + 1))
    if fft >= 1024:
        n = min(n, 2 * used)
    x = rand_c(rng, n) * 10.0 ** rng.uniform(-2, 2)
    if rng.random() < 0.06:
        x = x * 10.0 ** rng.uniform(-17, -12)       # very weak signals are signals too
    if rng.random() < 0.1:
        x = x.real.copy()
    tag["n"] = n
    xb = x.copy()
    okc, y = ctx.call("round-trip", o.modulate, x, cls="modulate", detail=tag)
    if okc:
        ctx.hold("round-trip", "modulate", y, tag)
    if not okc:
        return
    ctx.ev("args-not-mutated", np.array_equal(x, xb), cls="modulate", detail=tag)
    y = np.asarray(y)
    nsym = -(-n // used)
    ctx.ev("emitted-length", y.shape == (nsym * (fft + cp),), cls="length",
           detail={**tag, "got": y.shape, "want": nsym * (fft + cp)})
    if y.shape != (nsym * (fft + cp),):
        return
    Y = y.reshape(nsym, fft + cp)
    ctx.ev("prefix-is-copy-of-tail", cp == 0 or np.array_equal(Y[:, :cp], Y[:, fft:fft + cp]),
           n=nsym, detail=tag)
    body = Y[:, cp:]
    spec = dft_rows(body)
    scale = float(np.max(np.abs(spec))) + 1e-300
    usedbins = expected_used_bins(fft, used)
    ctx.ev("used-subcarrier-set", {int(k) % fft for k in o.get_used_subcarrier_indexes()} ==
           usedbins and len(o.get_used_subcarrier_indexes()) == used, cls="closed-form",
           detail={**tag, "got": np.asarray(o.get_used_subcarrier_indexes())[:8]})
    if used < fft:
        unused = np.array(sorted(set(range(fft)) - usedbins))
        leak = float(np.max(np.abs(spec[:, unused])))
        ctx.within("spectral-mask", leak, 64 * EPS * fft * scale, "dc-and-guards-empty",
                   {**tag, "leak": leak, "unused": unused[:6]})
    yc = y.copy()
    okc, back = ctx.call("round-trip", o.demodulate, yc, cls="demodulate", detail=tag)
    if okc:
        ctx.hold("round-trip", "demodulate", back, tag)
    if not okc:
        return
    back = np.asarray(back)
    # the received buffer belongs to the caller: its VALUES are unchanged (the
    # library reshapes the caller's array to symbols x samples in place; that
    # is observed but not part of the property) and demodulating it again gives
    # the same symbols
    ctx.ev("args-not-mutated", np.array_equal(yc.ravel(), y.ravel()), cls="demodulate", detail=tag)
    okc, back2 = ctx.call("round-trip", o.demodulate, yc, cls="demodulate-again", detail=tag)
    if okc:
        ctx.ev("round-trip", np.array_equal(np.asarray(back2), back), cls="same-buffer-twice",
               detail=tag)
    ctx.ev("round-trip", back.shape == (nsym * used,), cls="output-length",
           detail={**tag, "got": back.shape})
    if back.shape != (nsym * used,):
        return
    xm = float(np.max(np.abs(x))) + 1e-300
    tol = 64 * EPS * max(4, math.log2(fft) * 4) * xm * math.sqrt(fft)
    ctx.within("round-trip", float(np.max(np.abs(back[:n] - x))), tol, "symbols", tag)
    if back.size > n:
        ctx.within("round-trip", float(np.max(np.abs(back[n:]))), tol, "padding-is-zero", tag)
    if used > 2 or fft > 2:
        ctx.sig("rt", fft, cls3(cp, 0, fft), cls3(used, 2, fft - fft % 2),
                "multiple" if n % used == 0 else "ragged", reconf)
    if idx % 50 == 0:
        ctx.sample("roundtrip", {**tag, "x_head": x[:3]})
    # the SAME object with fewer used subcarriers (same fft): bins that carried
    # data a moment ago are guard band now and must be empty; same number of
    # OFDM symbols as before
    if used >= 4 and idx % 3 == 0:
        used2 = 2 * int(rng.integers(1, used // 2))
        okc, _ = ctx.call("round-trip", o.set_parameters, fft, cp, used2, cls="shrink-used",
                          detail={**tag, "used2": used2})
        if not okc:
            return
        n2 = used2 * nsym - int(rng.integers(0, used2))
        x2 = rand_c(rng, n2) * 10.0 ** rng.uniform(-2, 2)
        okc, y2 = ctx.call("round-trip", o.modulate, x2, cls="modulate-after-shrink", detail=tag)
        if not okc:
            return
        y2 = np.asarray(y2)
        tag2 = {**tag, "used_after_shrink": used2, "n2": n2}
        if y2.shape != (nsym * (fft + cp),):
            ctx.ev("emitted-length", False, cls="length-after-shrink",
                   detail={**tag2, "got": y2.shape})
            return
        spec2 = dft_rows(y2.reshape(nsym, fft + cp)[:, cp:])
        unused2 = np.array(sorted(set(range(fft)) - expected_used_bins(fft, used2)))
        leak2 = float(np.max(np.abs(spec2[:, unused2])))
        ctx.within("spectral-mask", leak2,
                   64 * EPS * fft * (float(np.max(np.abs(spec2))) + 1e-300),
                   "dc-and-guards-empty:after-shrink", {**tag2, "leak": leak2})
        okc, back3 = ctx.call("round-trip", o.demodulate, y2.copy(), cls="demodulate-after-shrink",
                              detail=tag2)
        if okc:
            back3 = np.asarray(back3)
            xm2 = float(np.max(np.abs(x2))) + 1e-300
            ctx.within("round-trip", float(np.max(np.abs(back3[:n2] - x2))) if back3.size >= n2
                       else float("inf"),
                       64 * EPS * max(4, math.log2(fft) * 4) * xm2 * math.sqrt(fft),
                       "symbols:after-shrink", tag2)


def case_reject(ctx, rng, idx):
    fft = int(rng.choice([4, 7, 16, 64]))
    bad = [(fft, -1, None), (fft, fft + 1, None), (fft, 0, fft + 2), (fft, 1, 3), (fft, 1, 0),
           (fft, 1, 1), (fft, 0, -2)][idx % 7]
    try:
        OF.OFDM(*bad)
        ctx.ev("rejects-invalid-parameters", False, cls="accepted", detail={"args": bad})
    except ValueError:
        ctx.ev("rejects-invalid-parameters", True)
    ctx.sig("reject", idx % 7)


def gen_taps(rng, cp, fft):
    """Delays (in samples) with the requested memory class."""
    mclass = str(rng.choice(["0", "1", "cp-1", "cp", "random"]))
    if mclass == "0" or cp == 0:
        mem = 0
    elif mclass == "1":
        mem = min(1, cp)
    elif mclass == "cp-1":
        mem = max(cp - 1, 0)
    elif mclass == "cp":
        mem = cp
    else:
        mem = int(rng.integers(0, cp + 1))
    ntaps = int(rng.integers(1, 7))
    if mem == 0:
        delays = np.zeros(1)
    else:
        inner = rng.integers(0, mem + 1, size=max(ntaps - 1, 0)).astype(float)
        delays = np.concatenate([[float(mem)], inner])
        if rng.random() < 0.7:
            delays = np.concatenate([delays, [0.0]])
        rng.shuffle(delays)
        if rng.random() < 0.5:
            delays = np.sort(delays)
    powers = rng.uniform(-20, 0, delays.size)
    if rng.random() < 0.35 and delays.size > 1:
        # a profile with weak late echoes: 40-60 dB below the strongest tap
        powers = rng.uniform(-60, 0, delays.size)
        powers[int(rng.integers(0, delays.size))] = 0.0
        powers[int(rng.integers(0, delays.size))] = -float(rng.uniform(31, 60))
    return delays, powers, mem, mclass


def case_channel(ctx, rng, idx):
    fft = FFTS[idx % 11]                       # up to 256 for the channel part
    long_frame = idx % 80 == 7 and idx < 16000          # (at most 200 such frames per run)
    if long_frame:
        fft = int(rng.choice([1024, 2048]))    # a wide-band frame of several symbols
    c = rng.random()
    cp = fft if c < 0.25 else (0 if c < 0.35 else int(rng.integers(0, fft + 1)))
    if long_frame:
        cp = int(rng.choice([64, 72, 144]))
    maxused = fft - (fft % 2)
    used = maxused if rng.random() < 0.4 else 2 * int(rng.integers(1, maxused // 2 + 1))
    delays, powers, mem, mclass = gen_taps(rng, cp, fft)
    Ts = float(10.0 ** rng.uniform(-8, -4))
    tag = {"fft": fft, "cp": cp, "used": used, "delays": delays, "powers_dB": powers,
           "memory": mem, "memory_class": mclass}
    o = OF.OFDM(fft, cp, used)
    eq_early = None
    if rng.random() < 0.3:
        # the modem and its equalizer exist already (another numerology) and the
        # modem is then re-configured: the equalizer follows the modem it serves
        f0 = FFTS[int(rng.integers(0, 9))]
        u0 = 2 * int(rng.integers(1, (f0 - f0 % 2) // 2 + 1))
        o = OF.OFDM(f0, int(rng.integers(0, f0 + 1)), u0)
        eq_early = OF.OfdmOneTapEqualizer(o)
        o.set_parameters(fft, cp, used)
        tag["equalizer_created_before_set_parameters"] = [f0, u0]
    gen = FG.JakesSampleGenerator(0.0, Ts, int(rng.integers(1, 10)),
                                  RS=np.random.RandomState(int(rng.integers(0, 2 ** 31))))
    okc, ch = ctx.call("equalised-equals-input", FA.TdlChannel, gen, None, powers, delays * Ts,
                       Ts, cls="channel-constructor", detail=tag)
    if not okc:
        return
    n = int(rng.integers(1, 3 * used + 1))
    if long_frame:
        n = used * int(rng.integers(4, 8)) - int(rng.integers(0, 3))
    x = rand_c(rng, n)
    y = np.asarray(o.modulate(x))
    okc, r = ctx.call("equalised-equals-input", ch.corrupt_data, y, cls="corrupt_data", detail=tag)
    if not okc:
        return
    r = np.asarray(r)
    memory = int(ch.num_taps_with_padding) - 1
    ctx.ev("equalised-equals-input", memory <= cp and r.shape == (y.size + memory,),
           cls="memory-within-cp", detail={**tag, "channel_memory": memory, "out": r.shape})
    if memory > cp:
        return
    resp = ch.get_last_impulse_response()
    rc = r[:y.size].copy()
    okc, dem = ctx.call("equalised-equals-input", o.demodulate, rc,
                        cls="demodulate", detail=tag)
    if not okc:
        return
    ctx.ev("args-not-mutated", np.array_equal(rc.ravel(), r[:y.size].ravel()), cls="demodulate(received)",
           detail=tag)
    eq = eq_early if eq_early is not None else OF.OfdmOneTapEqualizer(o)
    demc = np.array(dem, copy=True)
    okc, out = ctx.call("equalised-equals-input", eq.equalize_data, np.asarray(dem), resp,
                        cls="equalize_data", detail=tag)
    if not okc:
        return
    ctx.ev("args-not-mutated", np.array_equal(demc, np.asarray(dem)), cls="equalize_data",
           detail=tag)
    out = np.asarray(out)
    # the oracle's own frequency response of the (static) reported taps
    sp = np.asarray(resp.tap_values_sparse)[:, 0]
    ti = np.asarray(resp.tap_indexes_sparse).astype(int)
    k = np.arange(fft)
    H = np.zeros(fft, dtype=complex)
    for v, dl in zip(sp, ti):
        H += v * np.exp(-2j * np.pi * k * dl / fft)
    usedbins = np.array(sorted(expected_used_bins(fft, used)))
    Hu = H[usedbins]
    if np.min(np.abs(Hu)) < 1e-6 * np.max(np.abs(Hu)):
        ctx.tally("ill-conditioned-channel")
        return
    kappa = float(np.max(np.abs(H)) / np.min(np.abs(Hu)))
    xm = float(np.max(np.abs(x))) + 1e-300
    ctx.ev("equalised-equals-input", out.size >= n, cls="output-length",
           detail={**tag, "got": out.shape, "n": n})
    if out.size < n:
        return
    err = float(np.max(np.abs(out[:n] - x)))
    ctx.within("equalised-equals-input", err, 512 * EPS * fft * kappa * xm,
               "memory=%s%s" % (mclass, ":cp=fft" if cp == fft else ""),
               {**tag, "kappa": kappa, "n": n})
    # the frequency-domain shortcut of the channel on the OFDM grid: the used
    # subcarriers (in the order the modulator reports them) multiplied block by
    # block, then equalised with the response reported for THAT transmission
    if idx % 3 == 0:
        nb = int(rng.integers(1, 4))
        xf = rand_c(rng, nb * used)
        uidx = np.asarray(o.get_used_subcarrier_indexes())
        okc, yf = ctx.call("equalised-equals-input", ch.corrupt_data_in_freq_domain, xf, fft,
                           uidx.copy(), cls="freq-domain-raised", detail=tag)
        if okc:
            resp2 = ch.get_last_impulse_response()
            okc, out2 = ctx.call("equalised-equals-input", eq.equalize_data, np.asarray(yf), resp2,
                                 cls="equalize_data(freq-domain)", detail=tag)
            if okc:
                out2 = np.asarray(out2).ravel()
                h2 = np.asarray(resp2.tap_values_sparse)
                ti2 = np.asarray(resp2.tap_indexes_sparse).astype(int)
                kk = np.arange(fft)
                worst = 1.0
                for b in range(h2.shape[-1]):
                    Hb = np.zeros(fft, dtype=complex)
                    for v, dl in zip(h2[:, b], ti2):
                        Hb += v * np.exp(-2j * np.pi * kk * dl / fft)
                    Hub = Hb[usedbins]
                    if np.min(np.abs(Hub)) < 1e-6 * np.max(np.abs(Hub)):
                        worst = float("inf")
                        break
                    worst = max(worst, float(np.max(np.abs(Hb)) / np.min(np.abs(Hub))))
                if np.isfinite(worst) and out2.size >= xf.size:
                    ctx.within("equalised-equals-input", float(np.max(np.abs(out2[:xf.size] - xf))),
                               512 * EPS * fft * worst * (float(np.max(np.abs(xf))) + 1e-300),
                               "freq-domain-shortcut", {**tag, "blocks": nb, "kappa": worst})
                else:
                    ctx.tally("ill-conditioned-channel")
    ctx.sig("ch", fft, cls3(cp, 0, fft), cls3(used, 2, maxused), mclass, len(delays) > 1)
    if idx % 40 == 0:
        ctx.sample("channel", {k2: v for k2, v in tag.items()})


def case_channel_1x1(ctx, rng, idx):
    """The same law over a channel created through the antenna-aware interface
    (one transmit, one receive antenna), used in either link direction, and
    through the single-user wrapper with a path loss."""
    fft = FFTS[idx % 9]
    c = rng.random()
    cp = fft if c < 0.25 else int(rng.integers(0, fft + 1))
    maxused = fft - (fft % 2)
    used = maxused if rng.random() < 0.4 else 2 * int(rng.integers(1, maxused // 2 + 1))
    delays, powers, mem, mclass = gen_taps(rng, cp, fft)
    Ts = float(10.0 ** rng.uniform(-8, -4))
    kind = ["tdl-mimo", "tdl-mimo:switched", "su-mimo", "su-mimo:switched", "su-siso",
            "tdl-simo:switched", "tdl-simo"][idx % 7]
    nant = int(rng.integers(2, 4)) if "simo" in kind else 1
    pl = None
    tag = {"fft": fft, "cp": cp, "used": used, "delays": delays, "powers_dB": powers,
           "memory": mem, "memory_class": mclass, "channel": kind}
    o = OF.OFDM(fft, cp, used)
    rs = np.random.RandomState(int(rng.integers(0, 2 ** 31)))
    if kind.startswith("tdl-simo"):
        # one transmit antenna, several receive antennas -- in the reverse link
        # direction of a (1 x N) channel, or directly as an (N x 1) channel; the
        # OFDM signal is handed over in its ordinary 1-D form and every receive
        # antenna is equalised on its own
        shp = (1, nant) if kind.endswith(":switched") else (nant, 1)
        gen = FG.JakesSampleGenerator(0.0, Ts, int(rng.integers(1, 10)), shape=shp, RS=rs)
        okc, ch = ctx.call("equalised-equals-input", FA.TdlMimoChannel, gen, None, powers,
                           delays * Ts, Ts, cls="channel-constructor", detail=tag)
    elif kind.startswith("tdl-mimo"):
        gen = FG.JakesSampleGenerator(0.0, Ts, int(rng.integers(1, 10)), shape=(1, 1), RS=rs)
        okc, ch = ctx.call("equalised-equals-input", FA.TdlMimoChannel, gen, None, powers,
                           delays * Ts, Ts, cls="channel-constructor", detail=tag)
    else:
        from pyphysim.channels import singleuser as SU
        gen = FG.JakesSampleGenerator(0.0, Ts, int(rng.integers(1, 10)), RS=rs)
        if kind == "su-siso":
            okc, ch = ctx.call("equalised-equals-input", SU.SuChannel, gen, None, powers,
                               delays * Ts, Ts, cls="channel-constructor", detail=tag)
        else:
            okc, ch = ctx.call("equalised-equals-input", SU.SuMimoChannel, 1, gen, None, powers,
                               delays * Ts, Ts, cls="channel-constructor", detail=tag)
        if okc and rng.random() < 0.6:
            pl = float(10.0 ** rng.uniform(-6, 0))
            ch.set_pathloss(pl)
            tag["pathloss"] = pl
    if not okc:
        return
    if kind.endswith(":switched"):
        ch.switched_direction = True
    n = int(rng.integers(1, 3 * used + 1))
    x = rand_c(rng, n)
    y = np.asarray(o.modulate(x))
    okc, r = ctx.call("equalised-equals-input", ch.corrupt_data, y, cls="corrupt_data", detail=tag)
    if not okc:
        return
    r = np.asarray(r)
    memory = int(ch.num_taps_with_padding) - 1
    resp = ch.get_last_impulse_response()
    if nant > 1:
        ctx.ev("equalised-equals-input", memory <= cp and r.shape == (nant, y.size + memory),
               cls="memory-within-cp:" + kind,
               detail={**tag, "channel_memory": memory, "out": r.shape})
        if memory > cp or r.shape != (nant, y.size + memory):
            return
        # one receive antenna, with the taps reported for that antenna
        a = int(rng.integers(0, nant))
        tv = np.asarray(resp.tap_values_sparse)
        tva = tv[:, 0, a, :] if kind.endswith(":switched") else tv[:, a, 0, :]
        r = r[a]
        resp = FA.TdlImpulseResponse(np.ascontiguousarray(tva), resp.channel_profile)
        tag["receive_antenna"] = a
    if r.ndim == 2 and r.shape[0] == 1:
        r = r[0]
    ctx.ev("equalised-equals-input", memory <= cp and r.shape == (y.size + memory,),
           cls="memory-within-cp:" + kind, detail={**tag, "channel_memory": memory, "out": r.shape})
    if memory > cp or r.shape != (y.size + memory,):
        return
    okc, dem = ctx.call("equalised-equals-input", o.demodulate, r[:y.size].copy(),
                        cls="demodulate", detail=tag)
    if not okc:
        return
    eq = OF.OfdmOneTapEqualizer(o)
    okc, out = ctx.call("equalised-equals-input", eq.equalize_data, np.asarray(dem), resp,
                        cls="equalize_data:" + kind, detail=tag)
    if not okc:
        return
    out = np.asarray(out).ravel()
    sp = np.asarray(resp.tap_values_sparse)
    sp = sp.reshape(sp.shape[0], -1, sp.shape[-1])[:, 0, 0]
    ti = np.asarray(resp.tap_indexes_sparse).astype(int)
    k = np.arange(fft)
    H = np.zeros(fft, dtype=complex)
    for v, dl in zip(sp, ti):
        H += v * np.exp(-2j * np.pi * k * dl / fft)
    usedbins = np.array(sorted(expected_used_bins(fft, used)))
    Hu = H[usedbins]
    if np.min(np.abs(Hu)) < 1e-6 * np.max(np.abs(Hu)):
        ctx.tally("ill-conditioned-channel")
        return
    kappa = float(np.max(np.abs(H)) / np.min(np.abs(Hu)))
    xm = float(np.max(np.abs(x))) + 1e-300
    ctx.ev("equalised-equals-input", out.size >= n, cls="output-length",
           detail={**tag, "got": out.shape, "n": n})
    if out.size < n:
        return
    ctx.within("equalised-equals-input", float(np.max(np.abs(out[:n] - x))),
               512 * EPS * fft * kappa * xm, kind + (":pathloss" if pl is not None else ""),
               {**tag, "kappa": kappa, "n": n})
    ctx.sig("ch1x1", kind, pl is not None, fft, cls3(cp, 0, fft), mclass, len(delays) > 1)
    if idx % 40 == 0:
        ctx.sample("channel-1x1", dict(tag))


def classify(w):
    return None


GENS = {
    "roundtrip": Gen(case_roundtrip, 5200, 1000000),
    "channel": Gen(case_channel, 3300, 600000),
    "channel-1x1": Gen(case_channel_1x1, 600, 100000),
    "reject": Gen(case_reject, 28, 280),
}
MIN_EVALS = {"round-trip": 4000, "emitted-length": 2000, "prefix-is-copy-of-tail": 2000,
             "spectral-mask": 800, "used-subcarrier-set": 2000,
             "equalised-equals-input": 1500, "rejects-invalid-parameters": 20}
