"""C17 -- saving and loading parameters and results loses nothing."""
from __future__ import annotations

import math
import os

import numpy as np

from . import core
from .core import Gen

from pyphysim.simulations.parameters import SimulationParameters
from pyphysim.simulations.results import Result, SimulationResults

ID = "C17"
RULE = ("parameter dictionaries of 1-7 entries over the supported value "
        "kinds {python int/float/str/bool, numpy scalars int8..int64, "
        "uint8..uint64, float16/32/64, bool_, flat and nested lists, sets of "
        "ints/strs, real arrays of 0-3 dimensions incl. empty shapes, "
        "non-contiguous views and narrow dtypes} with any subset of the "
        "iterable entries marked unpacked, plus unpacked children; result "
        "sets with 1-3 names x 1-4 Result objects of every type x accumulation "
        "x 0-10 updates, repetition counts; round trips: JSON string, JSON "
        "file, pickle file (templated / extension-less names), parameter "
        "pickle file, Result to_json/to_dict, plus the results objects produced by "
        "real SimulationRunner runs.  Each loaded object is compared "
        "with the original by the classes' own == AND by an independent "
        "by-value canonical form, then saved and loaded again (idempotence).  "
        "Signature = (object kind, route, value kinds present, unpacked "
        "count, result types); non-trivial = at least one non-python-scalar "
        "value or one updated result.  "
        "Result histories mix updates with merges of multi-update results; the "
        "same object is saved again after further operations; results of single "
        "unpacked variations are saved under templates naming the unpacked "
        "parameter. "
        "Extension-less file names are also loaded by the name they were saved with. "
        "Sets with members of mixed types. "
        "Texts / files are loaded twice with the first loaded object modified in between; repetition counts include [] / 0 and current_rep 0..500; file-name labels of 50-80 characters. ")
ASSUMPTIONS = ["lists do not contain arrays (the classes' own == cannot "
               "compare those, independent of serialisation)",
               "by-value comparison: a float32 may come back as a Python float "
               "carrying the same number; tuples are not generated (JSON has "
               "no tuple)"]

INT_TYPES = [np.int8, np.int16, np.int32, np.int64, np.uint8, np.uint16, np.uint32, np.uint64]
FLOAT_TYPES = [np.float16, np.float32, np.float64]


# ------------------------------------------------------- value generation ---
def gen_value(rng, kind):
    if kind == "pyint":
        return int(rng.integers(-10 ** 6, 10 ** 6)) if rng.random() < 0.8 else \
            int(rng.integers(2 ** 53, 2 ** 62))
    if kind == "pyfloat-finite":     # for values that enter sums (inf - inf would be NaN)
        while True:
            v = gen_value(rng, "pyfloat")
            if math.isfinite(v):
                return v
    if kind == "pyfloat":
        c = rng.random()
        if c < 0.04:
            return float("inf") if rng.random() < 0.7 else float("-inf")   # e.g. SNR = inf
        if c < 0.3:
            return float(rng.integers(-50, 50))              # integral float
        if c < 0.6:
            return float(rng.standard_normal() * 10.0 ** rng.uniform(-8, 8))
        return float(rng.uniform(-10, 10))
    if kind == "str":
        alphabet = list("abcXYZ 01_-.") + ["é", "ß", "λ"]
        return "".join(rng.choice(alphabet, size=int(rng.integers(0, 9))))
    if kind == "bool":
        return bool(rng.integers(0, 2))
    if kind == "npint":
        t = INT_TYPES[int(rng.integers(0, len(INT_TYPES)))]
        info = np.iinfo(t)
        lo, hi = max(info.min, -2 ** 62), min(info.max, 2 ** 62)
        return t(int(rng.integers(lo, hi, endpoint=True)) if rng.random() < 0.8
                 else int(rng.choice([lo, hi])))
    if kind == "npfloat":
        t = FLOAT_TYPES[int(rng.integers(0, len(FLOAT_TYPES)))]
        if rng.random() < 0.04:
            return t(np.inf)
        return t(rng.uniform(-100, 100)) if rng.random() < 0.7 else t(rng.integers(-9, 9) + 0.5)
    if kind == "npbool":
        return np.bool_(rng.integers(0, 2))
    if kind == "list":
        n = int(rng.integers(0, 6))
        ek = str(rng.choice(["pyint", "pyfloat", "str", "npint", "npfloat"]))
        return [gen_value(rng, ek) for _ in range(n)]
    if kind == "nested-list":
        return [[gen_value(rng, "pyint") for _ in range(int(rng.integers(0, 4)))]
                for _ in range(int(rng.integers(1, 4)))] + ([[]] if rng.random() < 0.3 else [])
    if kind == "set":
        if rng.random() < 0.3:
            # members without a common order (numbers next to names)
            return {int(rng.integers(-20, 20)), gen_value(rng, "str") or "auto",
                    float(rng.integers(-40, 40)) / 4 + 0.125}
        if rng.random() < 0.5:
            return {int(x) for x in rng.integers(-20, 20, size=int(rng.integers(0, 6)))}
        return {gen_value(rng, "str") for _ in range(int(rng.integers(0, 5)))}
    if kind == "array":
        nd = int(rng.integers(0, 4))
        shape = tuple(int(x) for x in rng.integers(1, 5, size=nd))
        if rng.random() < 0.25:
            t = INT_TYPES[int(rng.integers(0, len(INT_TYPES)))]
            a = rng.integers(0, 100, size=shape).astype(t)
        elif rng.random() < 0.5:
            a = rng.integers(-1000, 1000, size=shape)
        else:
            t = FLOAT_TYPES[int(rng.integers(1, len(FLOAT_TYPES)))]
            a = (rng.standard_normal(shape) * 10.0 ** rng.uniform(-3, 3)).astype(t)
            if a.size and rng.random() < 0.08:
                a.flat[int(rng.integers(0, a.size))] = np.inf
        if nd >= 2 and rng.random() < 0.4:
            a = a.T if rng.random() < 0.5 else a[:, ::2]           # non-contiguous
        return a
    if kind == "empty-array":
        shape = [(0,), (0, 3), (2, 0), (0, 0), (1, 0, 2)][int(rng.integers(0, 5))]
        return np.zeros(shape, dtype=[float, int, np.float32][int(rng.integers(0, 3))])
    if kind == "iterable":         # something that can be marked 'unpacked'
        n = int(rng.integers(1, 5))
        c = rng.random()
        if c < 0.4:
            return np.sort(rng.choice(np.arange(-20, 20), size=n, replace=False)).astype(
                [np.int64, np.int32, float, np.float32][int(rng.integers(0, 4))])
        if c < 0.7:
            return [float(x) for x in rng.choice(np.arange(0, 40) / 4.0, size=n, replace=False)]
        if c < 0.85:
            return [int(x) for x in rng.choice(np.arange(0, 40), size=n, replace=False)]
        return ["v%d" % i for i in rng.choice(np.arange(9), size=n, replace=False)]
    raise ValueError(kind)


KINDS = ["pyint", "pyfloat", "str", "bool", "npint", "npfloat", "npbool", "list",
         "nested-list", "set", "array", "empty-array", "iterable"]


def canon(v, strict=False):
    """Canonical by-value form (strict=True also keeps the exact types)."""
    if isinstance(v, (bool, np.bool_)):
        out = ("b", bool(v))
    elif isinstance(v, (int, np.integer)):
        out = ("n", int(v))
    elif isinstance(v, (float, np.floating)):
        f = float(v)
        out = ("n", int(f) if math.isfinite(f) and f == int(f) and abs(f) < 2 ** 53 else f)
    elif isinstance(v, str):
        out = ("s", v)
    elif isinstance(v, (list, tuple)):
        out = ("l", tuple(canon(x, strict) for x in v))
    elif isinstance(v, (set, frozenset)):
        out = ("S", frozenset(canon(x, strict) for x in v))
    elif isinstance(v, np.ndarray):
        out = ("a", tuple(v.shape), tuple(canon(x) for x in v.ravel().tolist()))
        if strict:
            out = out + (str(v.dtype),)
    elif v is None:
        out = ("none",)
    elif isinstance(v, dict):
        out = ("d", tuple(sorted((k, canon(x, strict)) for k, x in v.items())))
    else:
        out = ("?", repr(v))
    if strict and not isinstance(v, np.ndarray):
        out = out + (type(v).__name__,)
    return out


def canon_params(p, strict=False):
    if p is None:
        return None
    return (tuple(sorted((k, canon(v, strict)) for k, v in p.parameters.items())),
            tuple(sorted(p.unpacked_parameters)), p.unpack_index,
            canon_params(p._original_sim_params, strict)
            if getattr(p, "_original_sim_params", None) is not None else None)


RESULT_STATE = (("name", "name"), ("update_type_code", "_update_type_code"),
                ("value", "_value"), ("total", "_total"), ("result_sum", "_result_sum"),
                ("result_squared_sum", "_result_squared_sum"), ("num_updates", "num_updates"),
                ("accumulate_values_bool", "_accumulate_values_bool"),
                ("value_list", "_value_list"), ("total_list", "_total_list"))


def canon_result(r, strict=False):
    # the object's own state (not its to_dict(), which is what is under test)
    d = {k: getattr(r, a) for k, a in RESULT_STATE}
    d["get_result"] = r.get_result() if r.num_updates else None
    return tuple((k, canon(d[k], strict)) for k in sorted(d))


def canon_results(sr, strict=False):
    return (canon_params(sr.params, strict),
            canon(sr.runned_reps, strict),
            canon(getattr(sr, "current_rep", None), strict),
            tuple(sorted((nm, tuple(canon_result(r, strict) for r in sr[nm]))
                         for nm in sr.get_result_names())))


def gen_params(rng, tag):
    p = SimulationParameters()
    n = int(rng.integers(1, 8))
    kinds = []
    for i in range(n):
        k = KINDS[int(rng.integers(0, len(KINDS)))]
        kinds.append(k)
        p.add("p%d_%s" % (i, k.replace("-", "")), gen_value(rng, k))
    unp = 0
    for name, k in zip(list(p.parameters), kinds):
        v = p[name]
        can_unpack = (k == "iterable") or (k == "list" and len(v) > 0 and
                                           all(not isinstance(x, str) for x in v)
                                           and len(set(map(repr, v))) == len(v))
        if can_unpack and rng.random() < 0.6 and unp < 2:
            p.set_unpack_parameter(name)
            unp += 1
    tag["kinds"] = sorted(set(kinds))
    tag["unpacked"] = unp
    return p


def eq_safe(ctx, monitor, a, b, cls, tag):
    try:
        ok = (a == b) and not (a != b)
    except Exception as e:
        import traceback
        ctx.ev(monitor, False, cls=cls + ":==-raised-" + type(e).__name__,
               detail={**tag, "exc": repr(e), "tb": traceback.format_exc(limit=-3)})
        return
    ctx.ev(monitor, ok, cls=cls + ":own-==", detail=tag)


def roundtrip(ctx, monitor, obj, save_load, canon_fn, route, tag, strict=False):
    """x -> y = load(save(x)) -> z = load(save(y)); x==y (own and by value),
    y == z (idempotent)."""
    okc, y = ctx.call(monitor, save_load, obj, cls="%s:raised" % route, detail=tag)
    if not okc:
        return None
    cx, cy = canon_fn(obj, strict), canon_fn(y, strict)
    ctx.ev(monitor, cx == cy, cls="%s:by-value" % route,
           detail=lambda: {**tag, "original": repr(cx)[:1500], "loaded": repr(cy)[:1500]})
    eq_safe(ctx, monitor, obj, y, route, tag)
    okc, z = ctx.call("idempotent", save_load, y, cls="%s:raised" % route, detail=tag)
    if okc:
        cz = canon_fn(z, strict)
        ctx.ev("idempotent", cy == cz, cls=route,
               detail=lambda: {**tag, "first": repr(cy)[:1500], "second": repr(cz)[:1500]})
    return y


def independent_loads(ctx, monitor, load, original, canon_fn, route, tag):
    """Two objects read from the same text / file are two objects: changing
    the first one (as a user would) must not show in the second."""
    try:
        y1 = load()
        c0 = canon_fn(original)
        # use the first loaded object the way any object is used
        if isinstance(y1, SimulationParameters):
            for k, v in list(y1.parameters.items()):
                if isinstance(v, list):
                    v.append(12345)
                elif isinstance(v, set):
                    v.add("added-later")
                elif isinstance(v, np.ndarray) and v.size and v.flags.writeable:
                    v.flat[0] = v.flat[0] + 1
            y1.add("added_later", 3)
        else:
            if isinstance(y1.runned_reps, list):
                y1.runned_reps.append(777)
            for nm in y1.get_result_names():
                r = y1[nm][-1]
                if r.type_code == Result.RATIOTYPE:
                    r.update(1, 2)
                elif r.type_code == Result.CHOICETYPE:
                    r.update(0)
                else:
                    r.update(1)
            y1.params.add("added_later", 3)
        y2 = load()
    except Exception as e:          # noqa: BLE001
        ctx.ev(monitor, False, cls="%s:second-load-raised:%s" % (route, type(e).__name__),
               detail={**tag, "exc": repr(e)})
        return
    c2 = canon_fn(y2)
    ctx.ev(monitor, c2 == c0, cls="%s:second-load-sees-changes-made-to-the-first" % route,
           detail=lambda: {**tag, "original": repr(c0)[:1200], "second_load": repr(c2)[:1200]})


# ------------------------------------------------------------------ cases ---
def case_params(ctx, rng, idx):
    tag = {}
    okc, p = ctx.call("params-roundtrip", gen_params, rng, tag, detail=tag)
    if not okc:
        return
    tag["repr"] = repr(p)[:600]
    wd = core.workdir()
    fn = os.path.join(wd, "p_%d.pickle" % idx)

    def via_json(x):
        return SimulationParameters.from_json(x.to_json())

    def via_pickle(x):
        x.save_to_pickled_file(fn)
        return SimulationParameters.load_from_pickled_file(fn)

    roundtrip(ctx, "params-roundtrip", p, via_json, canon_params, "json", tag)
    roundtrip(ctx, "params-roundtrip", p, via_pickle, canon_params, "pickle", tag, strict=True)
    if idx % 3 == 0:
        try:
            text = p.to_json()
        except Exception:           # noqa: BLE001 - judged by the round trip above
            text = None
        if text is not None:
            independent_loads(ctx, "params-roundtrip", lambda: SimulationParameters.from_json(text),
                              p, canon_params, "json", tag)
            independent_loads(ctx, "params-roundtrip",
                              lambda: SimulationParameters.load_from_pickled_file(fn),
                              p, canon_params, "pickle", tag)
    # json text itself is deterministic
    okc, t1 = ctx.call("params-roundtrip", p.to_json, cls="json:raised", detail=tag)
    if okc:
        ctx.ev("idempotent", p.to_json() == t1, cls="to_json-deterministic", detail=tag)
    # unpacked children keep index, marks and the link to their parent
    if tag["unpacked"]:
        kids = p.get_unpacked_params_list()
        kid = kids[int(rng.integers(0, len(kids)))]
        if rng.random() < 0.5:
            # the child gets an unpack mark of its own (a second-level sweep)
            kid.add("inner_sweep", [1, 2, 3])
            kid.set_unpack_parameter("inner_sweep")
            tag = {**tag, "child_has_own_unpack_mark": True}
        for route, fnc in (("json", via_json), ("pickle", via_pickle)):
            y = roundtrip(ctx, "params-roundtrip", kid, fnc, canon_params, "child-" + route,
                          {**tag, "child_index": kid.unpack_index}, strict=(route == "pickle"))
            if y is not None:
                ctx.ev("params-roundtrip",
                       y.unpack_index == kid.unpack_index and
                       y.get_num_unpacked_variations() == kid.get_num_unpacked_variations(),
                       cls="child-%s:index-and-parent" % route, detail=tag)
    nontrivial = [k for k in tag["kinds"] if k not in ("pyint", "pyfloat", "str", "bool")]
    if nontrivial:
        ctx.sig("params", tuple(tag["kinds"]), tag["unpacked"])
    ctx.sample("params", tag)


def gen_result(rng, name, t, acc, nupd, merges=True):
    r = Result(name, t, accumulate_values=acc, choice_num=4) if t == Result.CHOICETYPE \
        else Result(name, t, accumulate_values=acc)
    more_ops(rng, r, t, acc, nupd, merges)
    return r


def more_ops(rng, r, t, acc, nupd, merges=True):
    """Apply nupd further operations: updates and merges of other results that
    themselves carry 1-3 updates."""
    for _ in range(nupd):
        if merges and rng.random() < 0.25:
            r.merge(gen_result(rng, r.name, t, acc, int(rng.integers(1, 4)), merges=False))
            continue
        if t == Result.CHOICETYPE:
            r.update(int(rng.integers(0, 4)))
        elif t == Result.RATIOTYPE:
            r.update(gen_value(rng, "pyfloat-finite") if rng.random() < 0.5 else int(rng.integers(0, 9)),
                     int(rng.integers(1, 50)))
        elif t == Result.MISCTYPE:
            r.update(gen_value(rng, str(rng.choice(["pyint", "pyfloat-finite", "str"]))))
        else:
            r.update(gen_value(rng, "pyfloat-finite") if rng.random() < 0.5 else int(rng.integers(-9, 9)))


TYPES = [Result.SUMTYPE, Result.RATIOTYPE, Result.MISCTYPE, Result.CHOICETYPE]
TN = {0: "SUM", 1: "RATIO", 2: "MISC", 3: "CHOICE"}


def case_result(ctx, rng, idx):
    t = TYPES[idx % 4]
    acc = bool((idx // 4) % 2)
    nupd = int(rng.integers(0, 11)) if rng.random() < 0.8 else 0
    tag = {"type": TN[t], "accumulate": acc, "updates": nupd}
    okc, r = ctx.call("result-roundtrip", gen_result, rng, "r", t, acc, nupd, detail=tag)
    if not okc:
        return
    tag["repr"] = repr(r.to_dict())[:500]
    roundtrip(ctx, "result-roundtrip", r, lambda x: Result.from_json(x.to_json()), canon_result,
              "json", tag)
    roundtrip(ctx, "result-roundtrip", r, lambda x: Result.from_dict(x.to_dict()), canon_result,
              "dict", tag)
    # the same object keeps living: more updates/merges, then serialised again
    k = int(rng.integers(1, 4))
    okc, _ = ctx.call("result-roundtrip", more_ops, rng, r, t, acc, k, detail=tag)
    if okc:
        tag2 = {**tag, "after-first-save": "%d more operations" % k,
                "repr2": repr(canon_result(r))[:500]}
        roundtrip(ctx, "result-roundtrip", r, lambda x: Result.from_json(x.to_json()),
                  canon_result, "json:second-save", tag2)
        roundtrip(ctx, "result-roundtrip", r, lambda x: Result.from_dict(x.to_dict()),
                  canon_result, "dict:second-save", tag2)
    ctx.sig("result", TN[t], acc, min(nupd, 3))


def gen_results(rng, tag):
    p = gen_params(rng, tag)
    nvar = p.get_num_unpacked_variations()
    sr = SimulationResults()
    sr.set_parameters(p)
    types = []
    for i in range(int(rng.integers(1, 4))):
        t = TYPES[int(rng.integers(0, 4))]
        acc = bool(rng.integers(0, 2))
        types.append(TN[t])
        for _ in range(min(nvar, 4)):
            sr.append_result(gen_result(rng, "res%d" % i, t, acc, int(rng.integers(0, 6))))
    sr.runned_reps = [int(x) for x in rng.integers(1, 1000, size=min(nvar, 4))] \
        if rng.random() < 0.8 else int(rng.integers(1, 1000))
    edge = rng.random()
    if edge < 0.12:
        sr.runned_reps = []                 # nothing was run yet
    elif edge < 0.2:
        sr.runned_reps = 0
    elif edge < 0.3:
        sr.runned_reps = [0] * min(nvar, 4)
    if rng.random() < 0.4:
        # partial results carry the number of repetitions done so far -- 0 included
        sr.current_rep = int(rng.choice([0, 0, 1, 499, 500]))
    tag["result_types"] = types
    return sr


def case_results(ctx, rng, idx):
    tag = {}
    okc, sr = ctx.call("results-roundtrip", gen_results, rng, tag, detail=tag)
    if not okc:
        return
    tag["params"] = repr(sr.params)[:400]
    wd = core.workdir()
    scalars = [k for k, v in sr.params.parameters.items()
               if isinstance(v, (int, float, str, bool)) and "{" not in str(v) and "/" not in str(v)]
    route = ["json-string", "json-file", "pickle-file", "noext-file", "template-file"][idx % 5]
    if route == "template-file" and not scalars:
        route = "pickle-file"
    state = {}

    def save_load(x):
        if route == "json-string":
            return SimulationResults.from_json(x.to_json())
        if route == "json-file":
            name = os.path.join(wd, "r_%d.json" % idx)
        elif route == "pickle-file":
            name = os.path.join(wd, "r_%d.pickle" % idx)
        elif route == "noext-file":
            name = os.path.join(wd, "r_%d" % idx)
        else:
            ext = ".json" if idx % 2 else ".pickle"
            name = os.path.join(wd, "r_%d_{%s}%s" % (idx, scalars[0], ext))
        used = x.save_to_file(name)
        state["template"], state["used"] = name, used
        if route == "noext-file" and idx % 2:
            # loaded the way it was saved: by the name without an extension
            return SimulationResults.load_from_file(name)
        return SimulationResults.load_from_file(used)

    strict = route in ("pickle-file", "noext-file") or \
        (route == "template-file" and idx % 2 == 0)
    y = roundtrip(ctx, "results-roundtrip", sr, save_load, canon_results, route, tag, strict)
    if y is not None and idx % 3 == 0:
        if route == "json-string":
            text = sr.to_json()
            independent_loads(ctx, "results-roundtrip", lambda: SimulationResults.from_json(text),
                              sr, canon_results, route, tag)
        elif "used" in state:
            independent_loads(ctx, "results-roundtrip",
                              lambda: SimulationResults.load_from_file(state["used"]),
                              sr, canon_results, route, tag)
    if y is not None and "used" in state:
        want_tmpl = state["template"] + ("" if os.path.splitext(state["template"])[1]
                                         else ".pickle")
        ctx.ev("file-name", os.path.exists(state["used"]) and
               state["used"] == sr.get_filename_with_replaced_params(want_tmpl) and
               sr.original_filename == want_tmpl and "{" not in os.path.basename(state["used"]),
               cls=route, detail={**tag, **state, "original_filename": sr.original_filename})
    # the same results object keeps accumulating and is saved again
    if y is not None and idx % 2 == 0:
        def grow():
            for nm in sr.get_result_names():
                r = sr[nm][-1]
                more_ops(rng, r, r.type_code, r.accumulate_values_bool, int(rng.integers(1, 3)))
        okc, _ = ctx.call("results-roundtrip", grow, cls="grow", detail=tag)
        if okc:
            roundtrip(ctx, "results-roundtrip", sr, save_load, canon_results,
                      route + ":second-save", {**tag, "second-save": True}, strict)
    ctx.sig("results", route, tuple(sorted(set(tag["result_types"]))), tuple(tag["kinds"])[:3])
    ctx.sample("results:" + route, tag)


def case_filename(ctx, rng, idx):
    """Template -> file name is deterministic and injective over distinct
    scalar values of the same type."""
    kind = ["pyint", "pyfloat", "str", "npint", "npfloat", "tinyfloat", "closefloat",
            "longstr"][idx % 8]
    vals = []
    seen = set()
    stem = "scenario-" + "".join(str(rng.choice(list("abcdefgh_-."))) for _ in range(int(rng.integers(40, 70))))
    for _ in range(12):
        if kind == "longstr":          # descriptive labels that differ only near their end
            v = stem + "-" + str(int(rng.integers(0, 40)))
        elif kind == "closefloat":      # neighbours that agree in 12-15 significant digits
            base = float(rng.choice([0.3, 1.0, 2.5e3, 7e-4]))
            v = [base, float(np.nextafter(base, 10 * base)), base * (1 + 1e-13),
                 base * (1 + 3e-15), 0.1 + 0.2 if base == 0.3 else base * (1 - 1e-14)][
                int(rng.integers(0, 5))]
        elif kind == "tinyfloat":       # close together / tiny magnitudes
            v = float(rng.integers(1, 50)) * float(rng.choice([1e-13, 1e-14, 1e-16, 1e-20]))
            if rng.random() < 0.3:
                v = np.float64(v)
        else:
            v = gen_value(rng, kind)
        key = repr(v.item() if isinstance(v, np.generic) else v)
        if key not in seen and "/" not in str(v) and "{" not in str(v) and "}" not in str(v):
            seen.add(key)
            vals.append(v)
    names = {}
    for v in vals:
        sr = SimulationResults()
        p = SimulationParameters()
        p.add("x", v)
        p.add("other", 3)
        sr.set_parameters(p)
        okc, n1 = ctx.call("file-name", sr.get_filename_with_replaced_params,
                           "out_{x}_k{other}.pickle", detail={"value": repr(v)})
        if not okc:
            continue
        n2 = sr.get_filename_with_replaced_params("out_{x}_k{other}.pickle")
        ctx.ev("file-name", n1 == n2 and "{" not in n1, cls="deterministic",
               detail={"value": repr(v), "names": [n1, n2]})
        if n1 in names:
            ctx.ev("file-name", False, cls="not-injective:" + kind,
                   detail={"values": [repr(names[n1]), repr(v)], "name": n1})
        else:
            ctx.ev("file-name", True)
            names[n1] = v
    ctx.sig("filename", kind)
    # results of ONE unpacked variation (what a cluster job for a single index
    # holds): the name is filled from that variation's own values, so distinct
    # variations get distinct names and each file loads back as its own variation
    if kind in ("pyint", "pyfloat", "npint", "npfloat") and len(vals) >= 3:
        p = SimulationParameters()
        p.add("x", list(vals[:4]) if rng.random() < 0.5 else np.array(vals[:4]))
        p.add("other", 3)
        p.set_unpack_parameter("x")
        wd = core.workdir()
        seen_names = {}
        for child in p.get_unpacked_params_list():
            sr = SimulationResults()
            sr.set_parameters(child)
            r = Result("r", Result.SUMTYPE)
            r.update(int(child.unpack_index) + 1)
            sr.add_result(r)
            tmpl = os.path.join(wd, "var_%d_{x}_k{other}.pickle" % idx)
            okc, used = ctx.call("file-name", sr.save_to_file, tmpl,
                                 cls="variation:save-raised", detail={"x": repr(child["x"])})
            if not okc:
                continue
            ctx.ev("file-name", used not in seen_names, cls="variation:same-name-for-two-variations",
                   detail={"name": used, "x": repr(child["x"]), "also": repr(seen_names.get(used))})
            seen_names[used] = child["x"]
        for used, xv in seen_names.items():
            okc, back = ctx.call("file-name", SimulationResults.load_from_file, used,
                                 cls="variation:load-raised", detail={"name": used})
            if okc:
                ctx.ev("file-name", back.params["x"] == xv and
                       back["r"][-1].get_result() == back.params.unpack_index + 1,
                       cls="variation:file-holds-another-variation",
                       detail={"name": used, "want_x": repr(xv), "got_x": repr(back.params["x"])})
        ctx.sig("filename-variation", kind)


def case_runner_results(ctx, rng, idx):
    """The results object a real SimulationRunner run produces (it carries the
    repetition limit and counts) through every route."""
    from . import c05
    spec = c05.gen_spec(rng)
    spec.vector_result = False
    if spec.skip_kind in ("first", "last"):
        spec.skip_kind = "none"
    tag = c05.spec_tag(spec)
    runner = c05.ProbeRunner(spec)
    okc, _ = ctx.call("results-roundtrip", runner.simulate, cls="runner:simulate-raised",
                      detail=tag)
    if not okc:
        return
    sr = runner.results
    wd = core.workdir()
    route = ["json-string", "json-file", "pickle-file"][idx % 3]

    def canon_runner(x, strict=False):
        return canon_results(x, strict) + (canon(getattr(x, "rep_max", None)),
                                           canon(x.current_rep))

    def save_load(x):
        if route == "json-string":
            return SimulationResults.from_json(x.to_json())
        name = os.path.join(wd, "rr_%d.%s" % (idx, "json" if route == "json-file" else "pickle"))
        return SimulationResults.load_from_file(x.save_to_file(name))
    roundtrip(ctx, "results-roundtrip", sr, save_load, canon_runner, "runner:" + route, tag,
              strict=(route == "pickle-file"))
    ctx.sig("runner-results", route, len(spec.unpacked), spec.rep_max)
    ctx.sample("runner-results", {**tag, "route": route})


def classify(w):
    return None


GENS = {
    "params": Gen(case_params, 1500, 500000),
    "result": Gen(case_result, 800, 300000),
    "results": Gen(case_results, 1000, 300000),
    "filename": Gen(case_filename, 100, 40000),
    "runner-results": Gen(case_runner_results, 150, 50000),
}
MIN_EVALS = {"params-roundtrip": 5000, "result-roundtrip": 2000,
             "results-roundtrip": 2000, "idempotent": 4000, "file-name": 1000}
