"""Monitor toolkit: icontract helpers (record-and-continue), sys.monitoring
trace recorder, call recorder."""
from __future__ import annotations

import functools
import sys
from typing import Any, Callable, Dict, List, Optional, Tuple

import icontract

# The recorder (core.Ctx) that contract conditions report to.  Set by the
# generator that drives the workload; contracts evaluated while it is None
# only count.
ACTIVE: List[Any] = [None]
CONTRACT_EVALS: Dict[str, int] = {}


class ContractBroken(Exception):
    """error= class of every attached contract (never raised: conditions
    record the witness and return True)."""


def _wrap_cond(label: str, cond: Callable) -> Callable:
    def recording_condition(_ARGS, _KWARGS, result):
        CONTRACT_EVALS[label] = CONTRACT_EVALS.get(label, 0) + 1
        ctx = ACTIVE[0]
        if ctx is not None:
            try:
                cond(ctx, _ARGS, _KWARGS, result)
            except Exception as e:  # the oracle itself must never abort a call
                import traceback
                ctx.harness_errors.append(
                    "contract %s: %s" % (label, traceback.format_exc(limit=-4)))
        return True
    return recording_condition


def attach_ensure(owner: Any, name: str, cond: Callable,
                  label: Optional[str] = None) -> Callable[[], None]:
    """Attach `cond(ctx, args, kwargs, result)` as an icontract postcondition
    of owner.name (class or module attribute).  Returns an undo function.

    References bound before decoration (``from m import f``) bypass the
    contract; callers re-bind them via `rebind` and check CONTRACT_EVALS."""
    label = label or "%s.%s" % (getattr(owner, "__name__", owner), name)
    orig = owner.__dict__[name] if hasattr(owner, "__dict__") and \
        name in owner.__dict__ else getattr(owner, name)
    raw = orig
    is_static = isinstance(orig, staticmethod)
    if is_static:
        raw = orig.__func__
    dec = icontract.ensure(_wrap_cond(label, cond), error=ContractBroken)(raw)
    setattr(owner, name, staticmethod(dec) if is_static else dec)

    def undo() -> None:
        setattr(owner, name, orig)
    return undo


def attach_invariant(cls: type, cond: Callable, label: Optional[str] = None
                     ) -> type:
    """Return a subclass-free invariant-checked version of `cls`: icontract
    evaluates `cond(ctx, self)` after __init__ and around every public method
    call."""
    label = label or "%s.invariant" % cls.__name__

    def recording_invariant(self):
        CONTRACT_EVALS[label] = CONTRACT_EVALS.get(label, 0) + 1
        ctx = ACTIVE[0]
        if ctx is not None:
            try:
                cond(ctx, self)
            except Exception:
                import traceback
                ctx.harness_errors.append(
                    "invariant %s: %s" % (label, traceback.format_exc(limit=-4)))
        return True
    return icontract.invariant(recording_invariant, error=ContractBroken)(cls)


def rebind(modules: List[Any], name: str, new: Any) -> None:
    for m in modules:
        if hasattr(m, name):
            setattr(m, name, new)


# ---------------------------------------------------------------------------
class Trace:
    """sys.monitoring recorder for PY_START / PY_RETURN of chosen code
    objects.  `on_return(code, retval)` / `on_start(code)` are user callbacks.
    """

    def __init__(self, tool_name: str = "vf-trace"):
        self.mon = sys.monitoring
        self.tool = None
        for tid in (self.mon.PROFILER_ID, self.mon.DEBUGGER_ID, 3, 4):
            if self.mon.get_tool(tid) is None:
                self.tool = tid
                break
        self.attached: List[Any] = []
        self.name = tool_name
        self.on_start: Optional[Callable] = None
        self.on_return: Optional[Callable] = None

    def attach(self, codes: List[Any]) -> bool:
        if self.tool is None or not codes:
            return False
        E = self.mon.events
        self.mon.use_tool_id(self.tool, self.name)
        self.mon.register_callback(self.tool, E.PY_START, self._start)
        self.mon.register_callback(self.tool, E.PY_RETURN, self._ret)
        for c in codes:
            self.mon.set_local_events(self.tool, c, E.PY_START | E.PY_RETURN)
            self.attached.append(c)
        return True

    def _start(self, code, off):
        if self.on_start is not None:
            self.on_start(code)

    def _ret(self, code, off, retval):
        if self.on_return is not None:
            self.on_return(code, retval)

    def detach(self) -> None:
        if self.tool is None:
            return
        for c in self.attached:
            try:
                self.mon.set_local_events(self.tool, c, 0)
            except Exception:
                pass
        self.attached = []
        try:
            self.mon.free_tool_id(self.tool)
        except Exception:
            pass
