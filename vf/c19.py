"""C19 -- cell geometry: containment, user placement, border points, cluster
layout, point processes."""
from __future__ import annotations

import math

import numpy as np

from .core import Gen
from .num import EPS

from pyphysim.cell import shapes as SH
from pyphysim.cell import cell as CL
from pyphysim.pointprocess import pointprocess as PP

ID = "C19"
RULE = ("shapes {Hexagon, Rectangle (square and non-square), Circle, Cell, "
        "Cell3Sec (non-convex), CellSquare, CellWrap} x complex positions over "
        "3 decades x radii over 4 decades x rotations uniform in [-720,720] or "
        "multiples of 30/45/90 +- 1e-9; query points inside / outside / at "
        "every edge +- delta (delta = 1e-1..1e-9 of the radius); border points "
        "for uniform, vertex and edge-midpoint directions +- delta and ratios; "
        "random users with min-distance ratios; clusters of every supported "
        "size and type under rotation; point processes.  Independent kernels: "
        "crossing-number point-in-polygon and distance-to-boundary on the "
        "shape's own vertices (disc for the circle).  Signature = (kind, shape "
        "class, rotation class, query class, cluster size); non-trivial = a "
        "decided query (points closer than 1e-9 radius to the boundary are "
        "tallied as tie zone).  "
        "A third of the hexagon/circle/Cell/Cell3Sec shapes are reached through "
        "pos/radius/rotation setters and the relative-move methods in random "
        "order; users of a moved cell and users seen through a wrapped copy are "
        "re-checked; sector users against an independent sector hexagon; border "
        "ratios include 0, 1 and 1e-12; cluster-level border users in all four "
        "call forms. "
        "Border users are requested with ratios 0.0 / 1.0 / 1e-12..1e-2 / None, one ratio or one per angle; wrapped copies must be congruent to the cell they wrap as it is NOW (re-rotated / resized after the copy), agree with their own polygon, and the 42 wrap-around cells of a 19-cell cluster must continue the tiling. "
        "In 30 % of the hexagon clusters one or two cells are re-positioned through their pos setter before the distance matrices are requested. "
        "Border points are also requested exactly towards a vertex and in whole-degree directions. ")
ASSUMPTIONS = ["np.random is seeded per case (user placement uses the global "
               "generator)",
               "uniformity of the random placement is not part of the property"]


# ---------------------------------------------------------------- kernels ----
def point_in_polygon(p, V):
    """Crossing-number test; V complex vertices in order."""
    x, y = p.real, p.imag
    inside = False
    n = len(V)
    for i in range(n):
        a, b = V[i], V[(i + 1) % n]
        if (a.imag > y) != (b.imag > y):
            xc = a.real + (y - a.imag) * (b.real - a.real) / (b.imag - a.imag)
            if x < xc:
                inside = not inside
    return inside


def dist_to_boundary(p, V):
    best = float("inf")
    n = len(V)
    for i in range(n):
        a, b = V[i], V[(i + 1) % n]
        ab = b - a
        t = ((p - a).real * ab.real + (p - a).imag * ab.imag) / (abs(ab) ** 2)
        t = min(1.0, max(0.0, t))
        best = min(best, abs(p - (a + t * ab)))
    return best


def rot_class(rng):
    k = rng.integers(0, 4)
    if k == 0:
        return 0.0, "zero"
    if k == 1:
        return float(rng.uniform(-720, 720)), "uniform"
    if k == 2:
        return float(rng.choice([30, 45, 60, 90, 120, 180, 270, -30, -90, 360, 720])), "multiple"
    return float(rng.choice([30, 45, 90, 180]) + rng.choice([-1, 1]) * 1e-9), "multiple+-1e-9"


def rand_pos(rng):
    return complex(rng.uniform(-1, 1), rng.uniform(-1, 1)) * 10.0 ** rng.uniform(-1, 2)


SHAPES = ["hexagon", "rect-square", "rect-nonsquare", "circle", "cell", "cell3sec",
          "cellsquare", "cellwrap"]


SETTER_KINDS = ("hexagon", "circle", "cell", "cell3sec")


def make_rect_like(rng, kind, pos, R, rot):
    if kind == "rect-square":
        half = R / math.sqrt(2)
        return SH.Rectangle(pos - half * (1 + 1j), pos + half * (1 + 1j), rot), None
    if kind == "rect-nonsquare":
        w, h = R * rng.uniform(0.2, 1), R * rng.uniform(0.2, 1)
        return SH.Rectangle(pos - complex(w, h), pos + complex(w, h), rot), None
    return CL.CellSquare(pos, R, cell_id=1, rotation=rot), None


def make_shape(rng, kind):
    pos = rand_pos(rng)
    R = 10.0 ** rng.uniform(-2, 2)
    rot, rc = rot_class(rng)
    if kind in SETTER_KINDS and rng.random() < 0.35:
        # the same shape reached through its setters: built elsewhere with
        # another size/rotation, then moved, resized and rotated in a random order
        pos0, R0 = rand_pos(rng), R * 10.0 ** rng.uniform(-1, 1)
        rot0 = float(rng.uniform(-180, 180))
        if kind == "hexagon":
            s = SH.Hexagon(pos0, R0, rot0)
        elif kind == "circle":
            s = SH.Circle(pos0, R0)
        elif kind == "cell":
            s = CL.Cell(pos0, R0, cell_id=1, rotation=rot0)
        else:
            s = CL.Cell3Sec(pos0, R0, cell_id=1, rotation=rot0)
        steps = [("pos", pos), ("radius", R)] + ([("rotation", rot)] if kind != "circle" else [])
        for i in rng.permutation(len(steps)):
            how = int(rng.integers(0, 3)) if steps[i][0] == "pos" else 0
            if how == 1:
                s.move_by_relative_coordinate(steps[i][1] - s.pos)
            elif how == 2:
                delta = steps[i][1] - s.pos
                s.move_by_relative_polar_coordinate(abs(delta), math.atan2(delta.imag, delta.real))
            else:
                setattr(s, steps[i][0], steps[i][1])
        if kind == "circle":
            rot, rc = 0.0, "zero"
        return s, rc + "/setters"
    if kind in ("rect-square", "rect-nonsquare", "cellsquare") and rng.random() < 0.3:
        # rectangles keep absolute corners (pos/radius setters do not apply), but
        # their rotation can be assigned after construction
        s0, _ = make_rect_like(rng, kind, pos, R, float(rng.uniform(-180, 180)))
        s0.rotation = rot
        return s0, rc + "/rotation-setter"
    if kind == "hexagon":
        s = SH.Hexagon(pos, R, rot)
    elif kind == "rect-square":
        half = R / math.sqrt(2)
        s = SH.Rectangle(pos - half * (1 + 1j), pos + half * (1 + 1j), rot)
    elif kind == "rect-nonsquare":
        w, h = R * rng.uniform(0.2, 1), R * rng.uniform(0.2, 1)
        a, b = pos - complex(w, h), pos + complex(w, h)
        if rng.random() < 0.5:
            a, b = complex(a.real, b.imag), complex(b.real, a.imag)   # other diagonal
        s = SH.Rectangle(a, b, rot)
    elif kind == "circle":
        s = SH.Circle(pos, R)
        rot, rc = 0.0, "zero"
    elif kind == "cell":
        s = CL.Cell(pos, R, cell_id=1, rotation=rot)
    elif kind == "cell3sec":
        s = CL.Cell3Sec(pos, R, cell_id=1, rotation=rot)
    elif kind == "cellsquare":
        s = CL.CellSquare(pos, R, cell_id=1, rotation=rot)
    elif kind == "cellwrap":
        inner = CL.Cell(rand_pos(rng), R, cell_id=7, rotation=rot)
        s = CL.CellWrap(pos, inner)
    else:
        raise ValueError(kind)
    return s, rc


def shape_tag(s, kind, rc):
    return {"shape": kind, "pos": complex(s.pos), "radius": float(s.radius),
            "rotation": float(s.rotation), "rotation_class": rc}


def kernel_inside(s, kind, p, V):
    if kind == "circle":
        return abs(p - s.pos) < s.radius, abs(abs(p - s.pos) - s.radius)
    return point_in_polygon(p, V), dist_to_boundary(p, V)


def case_containment(ctx, rng, idx):
    kind = SHAPES[idx % len(SHAPES)]
    okc, res = ctx.call("containment", make_shape, rng, kind, detail={"shape": kind})
    if not okc:
        return
    s, rc = res
    V = np.asarray(s.vertices)
    R = float(s.radius)
    tag = shape_tag(s, kind, rc)
    pts = []
    # bounding region
    for _ in range(12):
        r = R * 1.3 * math.sqrt(rng.random())
        pts.append(("area", s.pos + r * np.exp(2j * np.pi * rng.random())))
    # edges +- delta
    n = len(V)
    for _ in range(10):
        delta = 10.0 ** -float(rng.integers(1, 10))
        if kind == "circle":
            ang = rng.uniform(0, 2 * np.pi)
            pts.append(("edge%.0e" % delta, s.pos + (R + rng.choice([-1, 1]) * delta * R)
                        * np.exp(1j * ang)))
            continue
        i = int(rng.integers(0, n))
        a, b = V[i], V[(i + 1) % n]
        t = rng.uniform(0.05, 0.95)
        nrm = 1j * (b - a) / abs(b - a)
        pts.append(("edge%.0e" % delta, a + t * (b - a) + rng.choice([-1, 1]) * delta * R * nrm))
    pts.append(("centre", complex(s.pos)))
    for qclass, p in pts:
        p = complex(p)
        want, db = kernel_inside(s, kind, p, V)
        if db < 1e-9 * R * 0.5:
            ctx.tally("tie-zone-points")
            continue
        okc, got = ctx.call("containment", s.is_point_inside_shape, p,
                            detail={**tag, "point": p})
        if not okc:
            continue
        ctx.ev("containment", bool(got) == bool(want),
               cls="%s:%s" % (kind, "rotated" if not rc.startswith("zero") else "unrotated"),
               detail={**tag, "point": p, "library": bool(got), "kernel": bool(want),
                       "dist_to_boundary_over_R": db / R, "query": qclass, "vertices": V})
        ctx.sig("containment", kind, rc, qclass)
    ctx.sample("containment:" + kind, {**tag, "vertices_head": V[:3]})


def case_wrap_users(ctx, rng, idx):
    """Users seen through a wrapped copy of a cell: the originals translated to
    the copy, whatever happened to either cell after the copy was made."""
    ikind = ["cell", "cell3sec", "cellsquare"][(idx // 5) % 3]
    (inner, rc) = make_shape(rng, ikind)
    nusers = int(rng.integers(1, 6))
    inner.add_random_users(nusers)
    wrap = CL.CellWrap(rand_pos(rng), inner, include_users_bool=True)
    hist = []
    for _ in range(int(rng.integers(0, 3))):
        op = int(rng.integers(0, 3))
        if op == 0:
            wrap.pos = rand_pos(rng)
            hist.append("move-wrap")
        elif op == 1 and ikind != "cellsquare":       # (rectangles ignore their pos setter)
            if rng.random() < 0.5:
                inner.pos = rand_pos(rng)       # (its users move with it)
                hist.append("move-inner")
            else:
                inner.move_by_relative_coordinate(rand_pos(rng) - inner.pos)
                hist.append("move-inner-relative")
        else:
            inner.add_random_users(1)
            hist.append("add-user")
    reshaped = False
    if idx % 3 == 0:
        # the wrapped cell is re-rotated / resized after the copy was made: the
        # copy reports the new rotation and radius, so its polygon follows
        if rng.random() < 0.6:
            inner.rotation = float(inner.rotation) + float(rng.uniform(5, 55))
            hist.append("rotate-inner")
            reshaped = True
        if ikind != "cellsquare" and rng.random() < 0.5:
            inner.radius = float(inner.radius) * float(rng.uniform(0.5, 2.0))
            hist.append("resize-inner")
            reshaped = True
    tag = {"shape": "cellwrap-users", "inner": ikind, "inner_pos": complex(inner.pos),
           "wrap_pos": complex(wrap.pos), "radius": float(inner.radius),
           "rotation": float(inner.rotation), "history": hist}
    okc, users = ctx.call("users-inside", lambda: wrap.users, detail=tag)
    if not okc:
        return
    orig = [complex(u.pos) for u in inner.users]
    V = np.asarray(wrap.vertices)
    R = float(inner.radius)
    scale = abs(wrap.pos) + abs(inner.pos) + R
    ctx.ev("users-inside", len(users) == len(orig) == wrap.num_users, cls="cellwrap:count",
           detail={**tag, "got": len(users), "want": len(orig)})
    # the copy is congruent to the cell it wraps as that cell is NOW
    Vi = np.asarray(inner.vertices)
    ctx.ev("containment", V.shape == Vi.shape and
           bool(np.max(np.abs((V - complex(wrap.pos)) - (Vi - complex(inner.pos))))
                <= 64 * EPS * scale), cls="cellwrap:copy-of-wrapped-cell",
           detail={**tag, "wrap_vertices": V, "inner_vertices": Vi})
    ctx.ev("containment", abs(float(np.real(wrap.rotation)) - float(inner.rotation))
           <= 1e-12 * (1 + abs(float(inner.rotation))) and
           abs(float(wrap.radius) - float(inner.radius)) <= 1e-12 * R,
           cls="cellwrap:reports-wrapped-rotation-and-radius", detail=tag)
    for _ in range(6):
        q = complex(wrap.pos) + 1.3 * R * rng.random() * np.exp(2j * np.pi * rng.random())
        if dist_to_boundary(q, V) < 1e-9 * R + 16 * EPS * scale:
            ctx.tally("tie-zone-points")
            continue
        okq, ins = ctx.call("containment", wrap.is_point_inside_shape, q,
                            detail=tag)
        if okq:
            ctx.ev("containment", bool(ins) == point_in_polygon(q, V),
                   cls="cellwrap", detail={**tag, "point": q})
    for u, o in zip(users, orig):
        p = complex(u.pos)
        ctx.within("users-inside", abs(p - (o - inner.pos + wrap.pos)), 16 * EPS * scale,
                   "cellwrap:translated-original", {**tag, "user": p, "original": o})
        if reshaped:
            continue        # (users keep their places when their cell is re-shaped)
        if dist_to_boundary(p, V) < 1e-9 * R + 16 * EPS * scale:
            ctx.tally("tie-zone-points")
            continue
        ctx.ev("users-inside", point_in_polygon(p, V), cls="cellwrap:inside-copy",
               detail={**tag, "user": p, "vertices": V})
    ctx.sig("wrap-users", ikind, rc, tuple(hist))


def case_users(ctx, rng, idx):
    if idx % 5 == 4:
        np.random.seed(int(rng.integers(0, 2 ** 31)))
        return case_wrap_users(ctx, rng, idx)
    kind = ["cell", "cell3sec", "cellsquare", "cell3sec-sector"][idx % 4]
    np.random.seed(int(rng.integers(0, 2 ** 31)))
    okc, res = ctx.call("users-inside", make_shape, rng, kind.split("-")[0],
                        detail={"shape": kind})
    if not okc:
        return
    s, rc = res
    V = np.asarray(s.vertices)
    R = float(s.radius)
    tag = shape_tag(s, kind, rc)
    ratio = float(rng.choice([0.0, 0.0, rng.uniform(0, 0.6)]))
    nusers = int(rng.integers(1, 8))
    if kind == "cell3sec-sector":
        sector = int(rng.integers(1, 4))
        okc, _ = ctx.call("users-inside", s.add_random_users_in_sector, nusers, sector, None,
                          ratio * 0.5, detail=tag)
    elif rng.random() < 0.5:
        okc, _ = ctx.call("users-inside", s.add_random_users, nusers, None, ratio, detail=tag)
    else:
        okc = True
        for _ in range(nusers):
            o, _ = ctx.call("users-inside", s.add_random_user, None, ratio, detail=tag)
            okc = okc and o
    if not okc:
        return
    users = s.users
    if kind == "cell3sec-sector":
        # independent sector hexagon: radius sqrt(3) R / 3, the cell centre is one
        # of its vertices, centres at 210, 330 and 90 degrees (+ the cell rotation)
        rs = math.sqrt(3) * R / 3.0
        ck = s.pos + rs * np.exp(1j * (math.radians([210.0, 330.0, 90.0][sector - 1]) +
                                       math.radians(s.rotation)))
        phi = np.angle(s.pos - ck)
        Vk = ck + rs * np.exp(1j * (phi + np.pi / 3 * np.arange(6)))
        for u in users:
            p = complex(u.pos)
            if dist_to_boundary(p, Vk) < 1e-9 * R:
                ctx.tally("tie-zone-points")
                continue
            ctx.ev("users-inside", point_in_polygon(p, Vk), cls="cell3sec:requested-sector",
                   detail={**tag, "user": p, "sector": sector, "sector_vertices": Vk})
            ctx.ev("users-min-distance", abs(p - ck) >= ratio * 0.5 * rs * (1 - 1e-12),
                   cls="cell3sec-sector", detail={**tag, "user": p, "ratio": ratio * 0.5})
    ctx.ev("users-inside", len(users) == nusers and s.num_users == nusers, cls="count",
           detail={**tag, "got": len(users), "want": nusers})
    for u in users:
        p = complex(u.pos)
        inside, db = kernel_inside(s, kind, p, V)
        if db < 1e-9 * R:
            ctx.tally("tie-zone-points")
            continue
        ctx.ev("users-inside", inside, cls="%s:%s" % (kind.split("-")[0],
                                                     "rotated" if not rc.startswith("zero") else "unrotated"),
               detail={**tag, "user": p, "dist_to_boundary_over_R": db / R})
        if kind != "cell3sec-sector":
            ctx.ev("users-min-distance", abs(p - s.pos) >= ratio * R * (1 - 1e-12),
                   cls=kind, detail={**tag, "user": p, "ratio": ratio,
                                     "dist_over_R": abs(p - s.pos) / R})
    # the cell moves (setter or relative move): its users move with it
    if kind in ("cell", "cell3sec", "cell3sec-sector") and users and rng.random() < 0.5:
        newpos = rand_pos(rng)
        oldpos, oldusers = complex(s.pos), [complex(u.pos) for u in s.users]
        how = int(rng.integers(0, 3))
        if how == 0:
            s.pos = newpos
        elif how == 1:
            s.move_by_relative_coordinate(newpos - s.pos)
        else:
            dl = newpos - s.pos
            s.move_by_relative_polar_coordinate(abs(dl), math.atan2(dl.imag, dl.real))
        V2 = np.asarray(s.vertices)
        scale2 = abs(s.pos) + R + abs(oldpos)
        # ... rigidly: every user keeps its offset to the cell centre
        for u, po in zip(s.users, oldusers):
            ctx.within("users-inside", abs((complex(u.pos) - complex(s.pos)) - (po - oldpos)),
                       64 * EPS * scale2, "%s:moved-rigidly-with-cell" % kind.split("-")[0],
                       {**tag, "user_before": po, "user_after": complex(u.pos),
                        "cell_before": oldpos, "cell_after": complex(s.pos)})
        for u in s.users:
            p = complex(u.pos)
            if dist_to_boundary(p, V2) < 1e-9 * R + 64 * EPS * scale2:
                ctx.tally("tie-zone-points")
                continue
            ctx.ev("users-inside", point_in_polygon(p, V2), cls="%s:after-cell-moved" % kind,
                   detail={**tag, "user": p, "new_pos": complex(s.pos),
                           "how": ["pos=", "relative", "relative-polar"][how]})
        V = V2
    # explicit users: relative coordinates, and a user outside must be refused
    if kind in ("cell", "cellsquare"):
        rel = complex(rng.uniform(-0.4, 0.4), rng.uniform(-0.4, 0.4))
        u = CL.Node(rel)
        okc, _ = ctx.call("users-inside", s.add_user, u, detail={**tag, "relative": rel})
        if okc:
            half = R if kind == "cell" else R / math.sqrt(2)
            ctx.ev("users-inside", abs(u.pos - (s.pos + rel * half)) <= 1e-12 * (abs(s.pos) + R),
                   cls="relative-position", detail={**tag, "rel": rel, "pos": complex(u.pos)})
        far = s.pos + 3 * R * np.exp(2j * np.pi * rng.random())
        try:
            s.add_user(CL.Node(complex(far)), relative_pos_bool=False)
            ctx.ev("users-inside", False, cls="outside-user-accepted",
                   detail={**tag, "user": complex(far)})
        except ValueError:
            ctx.ev("users-inside", True)
    ctx.sig("users", kind, rc, ratio > 0)


def direction_angles(rng, s, V):
    out = [("uniform", float(rng.uniform(-360, 720))) for _ in range(4)]
    i = int(rng.integers(0, len(V)))
    va = math.degrees(np.angle(V[i] - s.pos))
    d = 10.0 ** -float(rng.integers(1, 9))
    out.append(("vertex+-%.0e" % d, va + rng.choice([-1, 1]) * d))
    # exactly towards a vertex (the direction computed from the vertex itself), and
    # the whole-degree directions in which unrotated shapes have their vertices
    out.append(("vertex-exact", va))
    out.append(("whole-degrees", float(rng.choice([0, 60, 90, 120, 180, 240, 300, 360, -60, -120,
                                                   45, 135, 225, 315, 390]))))
    mid = (V[i] + V[(i + 1) % len(V)]) / 2
    if abs(mid - s.pos) > 1e-6 * s.radius:
        out.append(("edge-mid", math.degrees(np.angle(mid - s.pos)) + rng.choice([-1, 0, 1]) * d))
    return out


def case_border(ctx, rng, idx):
    kind = ["hexagon", "rect-square", "rect-nonsquare", "circle", "cell", "cell3sec",
            "cellsquare"][idx % 7]
    okc, res = ctx.call("border-point", make_shape, rng, kind, detail={"shape": kind})
    if not okc:
        return
    s, rc = res
    V = np.asarray(s.vertices)
    R = float(s.radius)
    tag = shape_tag(s, kind, rc)
    scale = abs(s.pos) + R
    for aclass, ang in direction_angles(rng, s, V):
        okc, bp = ctx.call("border-point", s.get_border_point, ang, detail={**tag, "angle": ang})
        if not okc:
            continue
        bp = complex(bp)
        if kind == "circle":
            db = abs(abs(bp - s.pos) - R)
        else:
            db = dist_to_boundary(bp, V)
        ctx.within("border-point", db, 1e-9 * R + 64 * EPS * scale,
                   "%s:on-boundary" % kind,
                   {**tag, "angle": ang, "point": bp, "dist_over_R": db / R, "aclass": aclass,
                    "vertices": V})
        dirn = (bp - s.pos)
        if abs(dirn) > 1e-6 * R:
            want = np.exp(1j * math.radians(ang))
            dev = abs(dirn / abs(dirn) - want)
            ctx.within("border-point", dev, 1e-9 + 64 * EPS * scale / abs(dirn),
                       "%s:direction" % kind, {**tag, "angle": ang, "point": bp})
        r = [float(rng.uniform(0.05, 0.95)), 0, 0.0, 1, 1.0,
             float(10.0 ** rng.uniform(-12, -2))][int(rng.integers(0, 6))]
        okc, bpr = ctx.call("border-point", s.get_border_point, ang, r,
                            detail={**tag, "angle": ang, "ratio": r})
        if okc:
            ctx.within("border-point", abs(complex(bpr) - (s.pos + r * (bp - s.pos))),
                       1e-12 * scale, "%s:ratio-linear" % kind,
                       {**tag, "angle": ang, "ratio": r})
        ctx.sig("border", kind, rc, aclass.split("+")[0])
    # border users of a cell
    if kind in ("cell", "cell3sec", "cellsquare"):
        angs = [float(a) for a in rng.uniform(0, 360, size=3)]
        # ratios as floats (the documented type), ends of the range included;
        # None = on the border; one ratio for all angles or one per angle
        pickr = lambda: [float(rng.uniform(0.1, 0.9)), 0.0, 1.0,
                         float(10.0 ** rng.uniform(-12, -2))][int(rng.integers(0, 4))]
        form = int(rng.integers(0, 3))
        rarg = pickr() if form == 0 else ([pickr() for _ in angs] if form == 1 else None)
        rlist = [rarg] * 3 if form == 0 else (rarg if form == 1 else [1.0] * 3)
        okc, _ = ctx.call("border-point", s.add_border_user, angs, *(() if rarg is None else (rarg,)),
                          detail={**tag, "ratio": rarg})
        if okc:
            for a, u, rr in zip(angs, s.users[-3:], rlist):
                ctx.within("border-point",
                           abs(complex(u.pos) - complex(s.get_border_point(a, rr))),
                           1e-12 * scale, "border-user", {**tag, "angle": a, "ratio": rr,
                                                          "ratio_argument": rarg})


HEX_SIZES = [1, 3, 4, 7, 13, 19]
SQ_SIZES = [1, 4, 9, 16]


def case_cluster(ctx, rng, idx):
    ctype = ["simple", "3sec", "square"][idx % 3]
    sizes = SQ_SIZES if ctype == "square" else HEX_SIZES
    ncell = sizes[(idx // 3) % len(sizes)]
    R = 10.0 ** rng.uniform(-2, 2)
    pos = rand_pos(rng)
    rot, rc = rot_class(rng)
    np.random.seed(int(rng.integers(0, 2 ** 31)))
    tag = {"type": ctype, "num_cells": ncell, "cell_radius": R, "pos": pos, "rotation": rot}
    okc, cl = ctx.call("cluster-layout", CL.Cluster, R, ncell, pos, None, ctype, rot,
                       detail=tag)
    if not okc:
        return
    cells = list(cl)
    ctx.ev("cluster-layout", len(cells) == ncell == cl.num_cells, cls="cell-count", detail=tag)
    centres = np.array([complex(c.pos) for c in cells])
    scale = abs(pos) + R * 6
    # congruent
    ctx.ev("cluster-layout", all(abs(c.rotation - rot) <= 1e-12 * (1 + abs(rot)) for c in cells)
           and len({type(c) for c in cells}) == 1, cls="congruent-rotation", detail=tag)
    rad = [abs(np.asarray(c.vertices) - c.pos).max() for c in cells]
    ctx.within("cluster-layout", max(rad) - min(rad), 1e-12 * scale, "congruent-size", tag)
    # centred
    ctx.within("cluster-layout", abs(centres.mean() - pos), 1e-12 * scale, "centred-on-position",
               {**tag, "centroid": complex(centres.mean())})
    ctx.within("cluster-layout", abs(complex(cl.pos) - pos), 1e-15 * scale + 1e-300,
               "pos-property", tag)
    # neighbour spacing
    if ncell > 1:
        D = np.abs(centres[:, None] - centres[None, :])
        D[np.arange(ncell), np.arange(ncell)] = np.inf
        step = math.sqrt(3) * R if ctype != "square" else R
        ctx.within("cluster-neighbour-distance", abs(D.min() - step), 1e-12 * scale,
                   ctype, {**tag, "min_centre_distance": float(D.min()), "expected": step})
        # every cell touches at least one other cell
        ctx.ev("cluster-neighbour-distance",
               bool(np.all(np.abs(D.min(axis=1) - step) <= 1e-9 * scale)),
               cls="every-cell-has-neighbour", detail=tag)
        # interiors disjoint: interior points of one cell are not inside another
        for _ in range(12):
            i = int(rng.integers(0, ncell))
            Vi = np.asarray(cells[i].vertices)
            w = rng.dirichlet(np.ones(len(Vi)))
            p = complex(np.sum(w * Vi)) if ctype != "3sec" else \
                complex(cells[i].pos + 0.3 * R * rng.random() * np.exp(2j * np.pi * rng.random()))
            if not point_in_polygon(p, Vi) or dist_to_boundary(p, Vi) < 1e-6 * R:
                continue
            for j in range(ncell):
                if j == i:
                    continue
                Vj = np.asarray(cells[j].vertices)
                ctx.ev("cluster-no-overlap", not point_in_polygon(p, Vj), cls="kernel",
                       detail={**tag, "point": p, "cells": [i + 1, j + 1]})
                okc, ins = ctx.call("cluster-no-overlap", cells[j].is_point_inside_shape, p,
                                    detail=tag)
                if okc:
                    ctx.ev("cluster-no-overlap", not ins,
                           cls="library-test:%s" % ("rotated" if not rc.startswith("zero") else "unrotated"),
                           detail={**tag, "point": p, "cells": [i + 1, j + 1]})
    # users and distance matrices
    nu = int(rng.integers(1, 4))
    cratio = float(rng.choice([0.0, 0.3, 0.6]))
    how = int(rng.integers(0, 3))
    if how == 0:
        okc, _ = ctx.call("cluster-distances", cl.add_random_users, None, nu, None, cratio,
                          detail=tag)
    elif how == 1:       # explicit list of cell ids
        okc, _ = ctx.call("cluster-distances", cl.add_random_users,
                          list(range(1, ncell + 1)), nu, None, cratio, detail=tag)
    else:                # one cell at a time
        okc = True
        for cid in range(1, ncell + 1):
            o, _ = ctx.call("cluster-distances", cl.add_random_users, cid, nu, None, cratio,
                            detail=tag)
            okc = okc and o
    if okc:
        if ctype != "square" and rng.random() < 0.3:
            # a cell is re-positioned through its public setter (its users go with
            # it): distances are those of the cluster as it is NOW
            for c in [cells[int(i)] for i in rng.choice(ncell, size=min(ncell, 2), replace=False)]:
                c.pos = complex(c.pos) + R * (rng.uniform(-3, 3) + 1j * rng.uniform(-3, 3))
            centres = np.array([complex(c.pos) for c in cells])
            tag = {**tag, "cells_moved_after_construction": True}
        users = cl.get_all_users()
        ctx.ev("cluster-distances", len(users) == nu * ncell, cls="user-count", detail=tag)
        up = np.array([complex(u.pos) for u in users])
        want = np.abs(up[:, None] - centres[None, :])
        if ncell == 19 and ctype != "square" and rng.random() < 0.5 and \
                not tag.get("cells_moved_after_construction"):
            # wrapped copies of the cells (only offered for 19 cells) are extra
            # drawing objects: users, cells and both distance matrices stay
            okw, _ = ctx.call("cluster-distances", cl.create_wrap_around_cells,
                              bool(rng.integers(0, 2)), cls="create_wrap_around_cells",
                              detail=tag)
            if okw:
                tag = {**tag, "wrap_around_cells": True}
                ctx.ev("cluster-distances", len(cl.get_all_users()) == nu * ncell and
                       [complex(c.pos) for c in cl] == [complex(z) for z in centres],
                       cls="after-wrap:users-and-cells", detail=tag)
                # the wrapped copies continue the tiling: hooked state (the
                # library only exposes them to its plot routine)
                wraps = list(getattr(cl, "_wrapped_cells", {}).values())
                if not wraps:
                    ctx.tally("wrapped-cells-not-observable")
                else:
                    wp = np.array([complex(w.pos) for w in wraps])
                    allp = np.concatenate([centres, wp])
                    Dw = np.abs(allp[:, None] - allp[None, :])
                    Dw[np.arange(len(allp)), np.arange(len(allp))] = np.inf
                    step = math.sqrt(3) * R
                    ctx.within("cluster-neighbour-distance", abs(Dw.min() - step), 1e-9 * scale,
                               "wrapped-cells:no-overlap",
                               {**tag, "min_centre_distance": float(Dw.min()), "expected": step})
                    ctx.ev("cluster-neighbour-distance",
                           bool(np.all(np.abs(Dw.min(axis=1) - step) <= 1e-9 * scale)),
                           cls="wrapped-cells:every-cell-has-neighbour", detail=tag)
                    ref = np.asarray(cells[0].vertices) - complex(cells[0].pos)
                    cong = all(np.asarray(w.vertices).shape == ref.shape and
                               np.max(np.abs(np.asarray(w.vertices) - complex(w.pos) - ref))
                               <= 1e-9 * scale for w in wraps)
                    ctx.ev("cluster-layout", cong, cls="wrapped-cells:congruent", detail=tag)
        for name in ("calc_dist_all_users_to_each_cell_no_wrap_around",
                     "calc_dist_all_users_to_each_cell"):
            okc, Dm = ctx.call("cluster-distances", getattr(cl, name), detail=tag)
            if okc:
                Dm = np.asarray(Dm)
                ctx.ev("cluster-distances", Dm.shape == want.shape and
                       bool(np.all(np.abs(Dm - want) <= 1e-12 * scale)), cls=name,
                       detail={**tag, "got_shape": Dm.shape})
        # every user lies in its own cell
        k = 0
        for c in cells:
            Vc = np.asarray(c.vertices)
            for u in c.users:
                p = complex(u.pos)
                rad_c = float(c.radius)
                ctx.ev("users-min-distance", abs(p - c.pos) >= cratio * rad_c * (1 - 1e-12),
                       cls="cluster-%s" % ctype,
                       detail={**tag, "user": p, "cell": c.id, "ratio": cratio,
                               "dist_over_R": abs(p - c.pos) / rad_c})
                if dist_to_boundary(p, Vc) > 1e-9 * R:
                    ctx.ev("users-inside", point_in_polygon(p, Vc),
                           cls="cluster-%s:%s" % (ctype, "rotated" if rc != "zero" else
                                                  "unrotated"),
                           detail={**tag, "user": p, "cell": c.id})
                k += 1
    # border users through the cluster-level call forms
    if ncell >= 2 and idx % 2 == 0:
        form = int(rng.integers(0, 4))
        ids = sorted(int(x) for x in rng.choice(np.arange(1, ncell + 1),
                                                size=min(ncell, int(rng.integers(1, 4))),
                                                replace=False))
        pickr = lambda: [float(rng.uniform(0.1, 0.95)), float(rng.uniform(0.1, 0.95)), 0.0, 1.0,
                         float(10.0 ** rng.uniform(-12, -2))][int(rng.integers(0, 5))]
        rr = pickr()
        before = {c.id: c.num_users for c in cells}
        if form == 0:                       # one cell, one angle
            ids, ang = ids[:1], float(rng.uniform(0, 360))
            args, want = (ids[0], ang, rr), {ids[0]: [ang]}
        elif form == 1:                     # one cell, several angles
            ids = ids[:1]
            ang = [float(a) for a in rng.uniform(0, 360, size=3)]
            args, want = (ids[0], ang, rr), {ids[0]: ang}
        elif form == 2:                     # several cells, the same angle
            ang = float(rng.uniform(0, 360))
            args, want = (ids, ang, rr), {i: [ang] for i in ids}
        else:                               # several cells, its own angles for each
            ang = [[float(a) for a in rng.uniform(-90, 360, size=int(rng.integers(1, 3)))]
                   for _ in ids]
            args, want = (ids, ang, rr), {i: a for i, a in zip(ids, ang)}
        ratio_of = {i: rr for i in want}
        if form >= 2 and rng.random() < 0.5:
            # one ratio per cell
            rlist = [pickr() for _ in ids]
            args = (args[0], args[1], rlist)
            ratio_of = {i: r for i, r in zip(ids, rlist)}
        okc, _ = ctx.call("border-point", cl.add_border_users, *args, cls="cluster:raised",
                          detail={**tag, "ids": ids, "angles": ang, "form": form,
                                  "ratios": args[2]})
        if okc:
            for c in cells:
                new = c.users[before[c.id]:]
                wa = want.get(c.id, [])
                rr = ratio_of.get(c.id, rr)
                ctx.ev("border-point", len(new) == len(wa), cls="cluster:users-per-cell",
                       detail={**tag, "cell": c.id, "got": len(new), "want": len(wa),
                               "form": form})
                for u, a in zip(new, wa):
                    ctx.within("border-point",
                               abs(complex(u.pos) - complex(c.get_border_point(a, rr))),
                               1e-12 * (abs(c.pos) + float(c.radius)), "cluster:border-user",
                               {**tag, "cell": c.id, "angle": a, "ratio": rr, "form": form})
    ctx.sig("cluster", ctype, ncell, rc)
    ctx.sample("cluster:" + ctype, {**tag, "centres_head": centres[:3]})


def case_pointprocess(ctx, rng, idx):
    np.random.seed(int(rng.integers(0, 2 ** 31)))
    n = int(rng.integers(1, 400))
    if idx % 2 == 0:
        mx = 10.0 ** rng.uniform(-2, 3)
        mn = mx * float(rng.choice([0.0, rng.uniform(0, 0.99)]))
        okc, p = ctx.call("point-process", PP.generate_random_points_in_circle, n, mx, mn,
                          detail={"n": n, "max": mx, "min": mn})
        if okc:
            r = np.abs(np.asarray(p))
            ctx.ev("point-process", r.shape == (n,) and bool(np.all(r <= mx * (1 + 4 * EPS))) and
                   bool(np.all(r >= mn * (1 - 4 * EPS))), cls="circle",
                   detail={"n": n, "max": mx, "min": mn, "rmin": r.min(), "rmax": r.max()})
    else:
        w, h = 10.0 ** rng.uniform(-2, 3), 10.0 ** rng.uniform(-2, 3)
        okc, p = ctx.call("point-process", PP.generate_random_points_in_rectangle, n, w, h,
                          detail={"n": n, "w": w, "h": h})
        if okc:
            p = np.asarray(p)
            ctx.ev("point-process", p.shape == (n,) and bool(np.all(np.abs(p.real) <= w / 2)) and
                   bool(np.all(np.abs(p.imag) <= h / 2)), cls="rectangle",
                   detail={"n": n, "w": w, "h": h})
    ctx.sig("pp", idx % 2, n > 100)


def classify(w):
    return None


GENS = {
    "containment": Gen(case_containment, 1600, 160000),
    "users": Gen(case_users, 750, 75000),
    "border": Gen(case_border, 1050, 105000),
    "cluster": Gen(case_cluster, 360, 36000),
    "pointprocess": Gen(case_pointprocess, 200, 20000),
}
MIN_EVALS = {"containment": 10000, "users-inside": 2000, "users-min-distance": 500,
             "border-point": 5000, "cluster-layout": 1000,
             "cluster-neighbour-distance": 300, "cluster-no-overlap": 1000,
             "cluster-distances": 500, "point-process": 150}
