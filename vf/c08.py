"""C08 -- multi-user channel views stay coherent across any sequence of
updates; corrupt_data = W^H (big_H x + last_noise) split per receiver."""
from __future__ import annotations

import math

import numpy as np

from .core import Gen
from .num import EPS, fro, herm

from pyphysim.channels import multiuser as MU

ID = "C08"
RULE = ("histories of 5-40 operations from {randomize (same or NEW antenna "
        "configuration), init_from_channel_matrix, set_pathloss(matrix), "
        "set_pathloss(None), noise_var=, set_post_filter, read one view, read "
        "all views, corrupt_data} on plain and external-interference objects "
        "(received blocks are held by reference and re-compared after the next "
        "transmission of a block of the same size) "
        "with K = 1..4 users and unequal antennas; a reference model holds the "
        "raw matrix (known from init, or from an identically seeded twin that "
        "never gets a path loss), the current path loss, noise and filters; "
        "'dense' histories read every view after every operation, 'sparse' "
        "ones read random single views so that read->mutate->read patterns "
        "hit each lazy cache separately.  Signature = (object kind, K, "
        "operation bigram); non-trivial = a view read or a transmission that "
        "follows at least one mutation.  "
        "Path-loss matrices also come with integer dtype (all ones, 0/1 masks) "
        "next to fractional external-interference path loss. "
        "A third of the transmissions use corrupt_concatenated_data. "
        "Ops include a re-initialisation the object must refuse (and survive unchanged), post-filters of mixed real / identity / complex kinds, and last_noise is re-read after every later op. "
        "5 % of the path-loss matrices are all-zero. ")
ASSUMPTIONS = ["post filters are square (Nr_k x Nr_k): the per-receiver split "
               "by antenna count is then unambiguous",
               "the number of users is not changed while a path loss is in "
               "force (a K x K path-loss matrix would be meaningless)"]


def rand_c(rng, *shape):
    return (rng.standard_normal(shape) + 1j * rng.standard_normal(shape)) / math.sqrt(2)


class Model:
    def __init__(self, ext):
        self.ext = ext
        self.raw = None
        self.Nr = self.Nt = None
        self.K = 0
        self.NtE = []
        self.pl = None
        self.pl_ext = None
        self.noise = None
        self.W = None

    def nt_all(self):
        return np.hstack([self.Nt, np.array(self.NtE, dtype=int)]) if self.ext else self.Nt

    def big(self):
        B = self.raw.astype(complex).copy()
        if self.pl is not None:
            plf = np.hstack([self.pl, self.pl_ext]) if self.ext else self.pl
            cr = np.hstack([0, np.cumsum(self.Nr)])
            ct = np.hstack([0, np.cumsum(self.nt_all())])
            for k in range(self.K):
                for j in range(len(ct) - 1):
                    B[cr[k]:cr[k + 1], ct[j]:ct[j + 1]] *= math.sqrt(plf[k, j])
        return B

    def block(self, B, k, l):
        cr = np.hstack([0, np.cumsum(self.Nr)])
        ct = np.hstack([0, np.cumsum(self.nt_all())])
        return B[cr[k]:cr[k + 1], ct[l]:ct[l + 1]]


def eq(a, b):
    a, b = np.asarray(a), np.asarray(b)
    return a.shape == b.shape and bool(np.all(np.abs(a - b) <= 4 * EPS * np.abs(b)))


VIEWS_PLAIN = ["big_H", "H", "get_Hkl", "get_Hk"]
VIEWS_EXT = VIEWS_PLAIN + ["big_H_no_ext_int", "H_no_ext_int", "get_Hk_without_ext_int"]


def check_view(ctx, obj, m, view, rng, hist):
    B = m.big()
    ntot = int(np.sum(m.Nt))
    cr = np.hstack([0, np.cumsum(m.Nr)])
    d = lambda **e: (lambda: {"view": view, "ext": m.ext, "K": m.K, "Nr": m.Nr, "Nt": m.Nt,
                              "NtE": m.NtE, "pathloss": m.pl is not None,
                              "history": hist[-12:], **e})
    try:
        if view == "big_H":
            ok = eq(obj.big_H, B)
        elif view == "H":
            Hm = obj.H
            ncols = m.K + (len(m.NtE) if m.ext else 0)
            ok = np.shape(Hm) == (m.K, ncols) and all(
                eq(Hm[k, l], m.block(B, k, l)) for k in range(m.K) for l in range(ncols))
        elif view == "get_Hkl":
            k, l = int(rng.integers(0, m.K)), int(rng.integers(0, m.K))
            ok = eq(obj.get_Hkl(k, l), m.block(B, k, l))
        elif view == "get_Hk":
            k = int(rng.integers(0, m.K))
            ok = eq(obj.get_Hk(k), B[cr[k]:cr[k + 1], :])
        elif view == "big_H_no_ext_int":
            ok = eq(obj.big_H_no_ext_int, B[:, :ntot])
        elif view == "H_no_ext_int":
            Hm = obj.H_no_ext_int
            ok = np.shape(Hm) == (m.K, m.K) and all(
                eq(Hm[k, l], m.block(B, k, l)) for k in range(m.K) for l in range(m.K))
        elif view == "get_Hk_without_ext_int":
            k = int(rng.integers(0, m.K))
            ok = eq(obj.get_Hk_without_ext_int(k), B[cr[k]:cr[k + 1], :ntot])
        else:
            raise ValueError(view)
    except Exception as e:
        import traceback
        ctx.ev("views-coherent", False, cls="%s:raised-%s" % (view, type(e).__name__),
               detail=d(exc=repr(e), tb=traceback.format_exc(limit=-3)))
        return
    ctx.ev("views-coherent", ok, cls=view, detail=d())
    # shape / configuration properties
    ctx.ev("configuration", obj.K == m.K and np.array_equal(obj.Nr, m.Nr) and
           np.array_equal(obj.Nt, m.Nt), detail=d(K=obj.K, Nr=obj.Nr, Nt=obj.Nt))


def do_corrupt(ctx, obj, m, rng, hist):
    nsym = int(rng.integers(1, 6))
    prev = getattr(m, "held", None)
    if prev is not None and rng.random() < 0.6:
        nsym = prev[3]          # blocks of one size, as a simulation loop sends them
    data = np.empty(m.K, dtype=object)
    for k in range(m.K):
        data[k] = rand_c(rng, int(m.Nt[k]), nsym)
    args = [data]
    stacked = [data[k] for k in range(m.K)]
    if m.ext:
        ed = np.empty(len(m.NtE), dtype=object)
        for j, n in enumerate(m.NtE):
            ed[j] = rand_c(rng, int(n), nsym)
            stacked.append(ed[j])
        args.append(ed)
    d = lambda **e: (lambda: {"ext": m.ext, "K": m.K, "Nr": m.Nr, "Nt": m.Nt, "NtE": m.NtE,
                              "noise": m.noise, "filters": m.W is not None,
                              "pathloss": m.pl is not None, "history": hist[-12:], **e})
    concat = rng.random() < 0.35
    if concat:
        # the same transmission handed over as ONE stacked block
        okc, outc = ctx.call("corrupt-data", obj.corrupt_concatenated_data, np.vstack(stacked),
                             cls="corrupt_concatenated_data", detail=d())
        if not okc:
            return
        outc = np.asarray(outc)
        crr = np.hstack([0, np.cumsum(m.Nr)])
        ctx.ev("corrupt-data", outc.ndim == 2 and outc.shape[0] == crr[-1], cls="concatenated:shape",
               detail=d(got=outc.shape))
        if outc.ndim != 2 or outc.shape[0] != crr[-1]:
            return
        out = [outc[crr[k]:crr[k + 1]] for k in range(m.K)]
    else:
        okc, out = ctx.call("corrupt-data", obj.corrupt_data, *args, detail=d())
        if not okc:
            return
    if prev is not None:
        # what an earlier transmission returned belongs to the caller
        same = all(np.array_equal(np.asarray(a), b) for a, b in zip(prev[0], prev[1]))
        ctx.ev("corrupt-data", same, cls="earlier-output-changed-by-later-call",
               detail=d(earlier=prev[2]))
    try:
        m.held = (out, [np.array(np.asarray(o), copy=True) for o in out],
                  "step %d" % len(hist), nsym)
    except Exception:            # noqa: BLE001 - malformed output is judged below
        m.held = None
    x = np.vstack(stacked)
    y = m.big() @ x
    ln = obj.last_noise
    m.noise_of_last_tx = None if ln is None else np.array(ln, copy=True)
    if m.noise is None:
        ctx.ev("last-noise", ln is None, cls="not-None-without-noise", detail=d())
    else:
        okn = ln is not None and np.shape(ln) == y.shape
        ctx.ev("last-noise", okn, cls="missing-or-shape", detail=d(shape=np.shape(ln)))
        if not okn:
            return
        if m.noise == 0.0:
            ctx.ev("last-noise", fro(ln) == 0.0, cls="nonzero-at-zero-variance", detail=d())
        y = y + ln
    if m.W is not None:
        cr = np.hstack([0, np.cumsum(m.Nr)])
        y = np.vstack([herm(m.W[k]) @ y[cr[k]:cr[k + 1]] for k in range(m.K)])
    cr = np.hstack([0, np.cumsum(m.Nr)])
    ok = len(out) == m.K
    scale = fro(y) + 1e-300
    if ok:
        for k in range(m.K):
            o = np.asarray(out[k])
            w = y[cr[k]:cr[k + 1]]
            if o.shape != w.shape or fro(o - w) > 64 * EPS * (int(np.sum(m.nt_all())) + 4) * scale:
                ok = False
                break
    ctx.ev("corrupt-data", ok, cls=("ext" if m.ext else "plain") + (":concatenated" if concat else ""),
           detail=d(out0=np.asarray(out[0]) if len(out) else None, want0=y[cr[0]:cr[1]]))


def gen_config(rng, ext, K=None):
    K = K or int(rng.integers(1, 5))
    Nr = rng.integers(1, 5, size=K)
    Nt = rng.integers(1, 5, size=K)
    NtE = [int(x) for x in rng.integers(1, 3, size=int(rng.integers(1, 3)))] if ext else []
    return K, Nr, Nt, NtE


def nte_arg(NtE):
    return NtE if len(NtE) > 1 else int(NtE[0])


def case_history(ctx, rng, idx):
    ext = bool(idx % 2)
    dense = bool((idx // 2) % 2)
    cls = MU.MultiUserChannelMatrixExtInt if ext else MU.MultiUserChannelMatrix
    obj, twin = cls(), cls()
    seed = int(rng.integers(0, 2 ** 31))
    obj.set_channel_seed(seed)
    twin.set_channel_seed(seed)
    m = Model(ext)
    hist = []
    views = VIEWS_EXT if ext else VIEWS_PLAIN
    nops = int(rng.integers(5, 41))
    mutated_since_read = False

    for step in range(nops):
        if m.raw is None:
            op = "randomize" if rng.random() < 0.5 else "init"
        else:
            op = str(rng.choice(
                ["randomize", "randomize-new", "init", "init-new", "pathloss", "pathloss",
                 "pathloss=None", "noise", "filter", "filter=None", "read1", "read1",
                 "readall", "corrupt", "corrupt", "rejected-init"]))
        had_filter = m.W is not None
        if op in ("randomize", "randomize-new", "init", "init-new"):
            newcfg = op.endswith("-new") or m.raw is None
            if newcfg:
                K = m.K if (m.pl is not None and m.K) else None
                K, Nr, Nt, NtE = gen_config(rng, ext, K)
                if ext and m.pl is not None and m.NtE:
                    NtE = [int(x) for x in rng.integers(1, 3, size=len(m.NtE))]
                m.K, m.Nr, m.Nt, m.NtE = K, Nr, Nt, NtE
                if had_filter:
                    # filters sized for the old antennas: install matching ones
                    m.W = [rand_c(rng, int(n), int(n)) for n in m.Nr]
                    obj.set_post_filter(m.W)
            try:
                if op.startswith("randomize"):
                    if ext:
                        obj.randomize(m.Nr.copy(), m.Nt.copy(), m.K, nte_arg(m.NtE))
                        twin.randomize(m.Nr.copy(), m.Nt.copy(), m.K, nte_arg(m.NtE))
                    else:
                        obj.randomize(m.Nr.copy(), m.Nt.copy(), m.K)
                        twin.randomize(m.Nr.copy(), m.Nt.copy(), m.K)
                    m.raw = np.array(twin.big_H)
                else:
                    raw = rand_c(rng, int(m.Nr.sum()), int(m.nt_all().sum()))
                    if ext:
                        obj.init_from_channel_matrix(raw.copy(), m.Nr.copy(), m.Nt.copy(),
                                                     m.K, nte_arg(m.NtE))
                    else:
                        obj.init_from_channel_matrix(raw.copy(), m.Nr.copy(), m.Nt.copy(), m.K)
                    m.raw = raw
            except Exception as e:
                ctx.ev("views-coherent", False, cls="%s:raised-%s" % (op, type(e).__name__),
                       detail={"op": op, "history": hist[-12:], "exc": repr(e)})
                return
        elif op == "rejected-init":
            # a re-initialisation the object refuses (matrix that does not match the
            # stated antennas, or a wrong user count): the object stays as it was
            K2, Nr2, Nt2, NtE2 = gen_config(rng, ext)
            bad = rand_c(rng, int(Nr2.sum()) + 1, int(Nt2.sum()) + int(sum(NtE2)) + 2)
            kbad = K2 if rng.random() < 0.5 else K2 + 1
            try:
                if ext:
                    obj.init_from_channel_matrix(bad, Nr2, Nt2, kbad, nte_arg(NtE2))
                else:
                    obj.init_from_channel_matrix(bad, Nr2, Nt2, kbad)
                ctx.ev("views-coherent", False, cls="rejected-init:accepted",
                       detail={"history": hist[-12:], "shape": bad.shape, "Nr": Nr2, "Nt": Nt2})
                return
            except ValueError:
                ctx.ev("views-coherent", int(obj.K) == m.K and
                       np.array_equal(np.asarray(obj.Nr), m.Nr) and
                       np.array_equal(np.asarray(obj.Nt), m.Nt),
                       cls="rejected-init:configuration-changed",
                       detail={"history": hist[-12:], "K": [int(obj.K), m.K],
                               "Nr": [np.asarray(obj.Nr), m.Nr]})
            except Exception as e:          # noqa: BLE001
                ctx.ev("views-coherent", False, cls="rejected-init:raised-" + type(e).__name__,
                       detail={"history": hist[-12:], "exc": repr(e)})
                return
        elif op == "pathloss":
            m.pl = 10.0 ** rng.uniform(-3, 0, size=(m.K, m.K))
            plk = rng.random()
            if plk > 0.95:
                m.pl = np.zeros((m.K, m.K))                      # every link blocked
            if plk < 0.15:
                m.pl = np.ones((m.K, m.K), dtype=int)            # "no loss", integer dtype
            elif plk < 0.3:
                m.pl = rng.integers(0, 2, size=(m.K, m.K))          # 0/1 mask, integer dtype
                m.pl[np.arange(m.K), np.arange(m.K)] = 1
            if ext:
                m.pl_ext = 10.0 ** rng.uniform(-3, 0, size=(m.K, len(m.NtE)))
                if rng.random() < 0.15:
                    m.pl_ext = np.ones((m.K, len(m.NtE)), dtype=int)
                obj.set_pathloss(m.pl.copy(), m.pl_ext.copy())
            else:
                obj.set_pathloss(m.pl.copy())
        elif op == "pathloss=None":
            m.pl = m.pl_ext = None
            obj.set_pathloss(None)
        elif op == "noise":
            m.noise = [None, 0.0, 1e-3, 1.0][int(rng.integers(0, 4))]
            obj.noise_var = m.noise
        elif op == "filter":
            m.W = [rand_c(rng, int(n), int(n)) for n in m.Nr]
            if rng.random() < 0.3:
                # filters of mixed kinds: an identity / a real matrix for some
                # receivers, complex ones for the others
                for k in range(len(m.W)):
                    r = rng.random()
                    if r < 0.35:
                        m.W[k] = np.eye(int(m.Nr[k]))
                    elif r < 0.6:
                        m.W[k] = rng.standard_normal((int(m.Nr[k]), int(m.Nr[k])))
            obj.set_post_filter(list(m.W) if rng.random() < 0.5 else
                                np.array(m.W + [None], dtype=object)[:-1])
        elif op == "filter=None":
            m.W = None
            obj.set_post_filter(None)
        hist.append(op)
        snap = getattr(m, "noise_of_last_tx", "unset")
        if op != "corrupt" and not isinstance(snap, str):
            # until the next transmission, `last_noise` keeps reporting the noise of
            # the last one -- whatever was re-configured meanwhile
            ln = obj.last_noise
            ctx.ev("last-noise", (ln is None and snap is None) or
                   (ln is not None and snap is not None and np.array_equal(np.asarray(ln), snap)),
                   cls="changed-without-a-transmission",
                   detail={"history": hist[-12:], "after_op": op})
        if op in ("read1", "readall", "corrupt"):
            if len(hist) >= 2:
                ctx.sig("ext" if ext else "plain", m.K, hist[-2], op)
        else:
            mutated_since_read = True
        if op == "read1":
            check_view(ctx, obj, m, str(rng.choice(views)), rng, hist)
        elif op == "readall" or (dense and op not in ("corrupt",)):
            for v in views:
                check_view(ctx, obj, m, v, rng, hist)
        if op == "corrupt":
            do_corrupt(ctx, obj, m, rng, hist)
    # always finish with a full read and one transmission
    for v in views:
        check_view(ctx, obj, m, v, rng, hist + ["final-read"])
    do_corrupt(ctx, obj, m, rng, hist + ["final"])
    ctx.sample("ext" if ext else "plain",
               {"ext": ext, "dense": dense, "history": hist, "K": m.K, "Nr": m.Nr, "Nt": m.Nt})


def classify(w):
    return None


GENS = {"history": Gen(case_history, 1200, 120000)}
MIN_EVALS = {"views-coherent": 10000, "corrupt-data": 2000, "last-noise": 500,
             "configuration": 10000}
