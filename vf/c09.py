"""C09 -- block diagonalisation nulls inter-user interference within the
power budget (plain, whitening and enhanced/ext-int variants)."""
from __future__ import annotations

import math

import numpy as np

from .core import Gen
from . import monitors, num
from .num import EPS, fro, herm

from pyphysim.comm import blockdiagonalization as BD
from pyphysim.channels import multiuser as MU
from pyphysim.modulators import fundamental as F

ID = "C09"
RULE = ("a BD object is used for 1-3 consecutive precodings (object re-used, "
        "power / noise reassigned between rounds, the channel array sometimes "
        "overwritten IN PLACE) on K = 2..5 users x 1..4 antennas per user, "
        "channels = controlled-SVD matrix x per-user large-scale gains "
        "(balanced, or spread over up to 100 dB), Pu and noise over 4 decades; "
        "ext-int variants: 1-2 interference sources of total rank < antennas, "
        "powers over 3 decades, all five metrics and every admissible stream "
        "count.  icontract postconditions on the real block_diagonalize* / "
        "calc_receive_filter methods decide every call.  Signature = (variant, "
        "K, antennas, gain class, round kind, metric, streams); non-trivial = "
        "K >= 2 (always).  "
        "The driver records the requested metric / stream count (the contract "
        "compares them with what is in force) and reconfigures the same object "
        "between rounds. "
        "Ext-int channels carry a per-link path loss in 40 % of the cases and the solution is judged on big_H (what corrupt_data applies), not on the view the solver reads; other configured EnhancedBD objects are kept alive next to the one under test. "
        "The ext-int designs are judged against the channel the DRIVER configured (raw matrix x last path loss), which big_H must equal; 40 % of the second rounds set a new path loss. ")
ASSUMPTIONS = [
    "a stream counts as 'given power' when its effective gain sqrt(p)*sigma "
    "exceeds 1e-10 of the largest one (pinv discards below 1e-15: the zone in "
    "between is tallied, not decided)",
    "leakage tolerance is absolute in the norm of the whole channel: "
    "256 eps n ||H||_2 ||Ms_k||_F (null spaces come from an SVD of the stacked "
    "other users)"]

CUR = {"H": None}     # what the driver passed last (to detect in-place reuse)


def user_cols(total, K, k):
    w = total // K
    return slice(k * w, (k + 1) * w)


def post_bd(waterfilling):
    def cond(ctx, args, kwargs, result):
        self = args[0]
        H = np.asarray(args[1] if len(args) > 1 else kwargs["mtChannel"])
        if not isinstance(H, np.ndarray) or H.ndim != 2:
            return
        newH, Ms = result
        K = self.num_users
        Pu = float(self.iPu)
        n = H.shape[0]
        normH = float(np.linalg.norm(H, 2))
        tag = {"class": type(self).__name__, "K": K, "shape": H.shape, "Pu": Pu,
               "noise_var": self.noise_var, "waterfilling": waterfilling}
        d = lambda **e: (lambda: {**tag, "H": H, **e})
        ctx.within("newH=H*Ms", fro(newH - H @ Ms), 64 * EPS * n * normH * fro(Ms) + 1e-300,
                   None, d())
        # inter-user leakage
        rows = n // K
        worst = 0.0
        for k in range(K):
            Mk = Ms[:, user_cols(Ms.shape[1], K, k)]
            tol = 256 * EPS * n * normH * max(fro(Mk), 1e-300)
            for j in range(K):
                if j != k:
                    blk = newH[j * rows:(j + 1) * rows, user_cols(newH.shape[1], K, k)]
                    worst = max(worst, fro(blk) / tol)
        ctx.stat("block-diagonal", worst)
        ctx.ev("block-diagonal", worst <= 1.0, detail=d(worst_over_tol=worst, newH=newH))
        # power budget
        pw = np.array([fro(Ms[:, user_cols(Ms.shape[1], K, k)]) ** 2 for k in range(K)])
        ptol = 64 * EPS * n * Pu
        ctx.ev("power-budget", bool(np.all(pw <= Pu + ptol)), cls="exceeds",
               detail=d(block_powers=pw))
        ctx.ev("power-budget", abs(pw.max() - Pu) <= ptol, cls="max-below-budget",
               detail=d(block_powers=pw))
        if not waterfilling:
            ctx.ev("power-budget", bool(np.all(np.abs(pw - Pu) <= ptol)),
                   cls="not-all-equal-without-waterfilling", detail=d(block_powers=pw))
    return cond


def post_recv(ctx, args, kwargs, result):
    newH = np.asarray(args[0] if args else kwargs["newH"])
    W = np.asarray(result)
    if newH.ndim != 2 or W.shape != newH.T.shape:
        ctx.ev("receive-filter", False, cls="shape", detail={"newH": newH.shape, "W": W.shape})
        return
    check_receive(ctx, W, newH, "calc_receive_filter")


def check_receive(ctx, W, Heff, origin):
    """(W Heff) must be the identity on every stream that was given power."""
    colg = np.linalg.norm(Heff, axis=0)
    if colg.size == 0 or colg.max() == 0:
        return
    powered = colg >= 1e-10 * colg.max()
    undecided = (~powered) & (colg > 1e-15 * colg.max())
    if undecided.any():
        ctx.tally("streams-in-pinv-cutoff-zone", int(undecided.sum()))
    G = W @ Heff
    Hp = Heff[:, powered]
    sv = np.linalg.svd(Hp, compute_uv=False)
    kappa = sv[0] / sv[-1] if sv[-1] > 0 else float("inf")
    idx = np.flatnonzero(powered)
    E = G[:, idx].copy()
    E[idx, np.arange(idx.size)] -= 1.0
    ctx.within("receive-filter", fro(E), 256 * EPS * max(Heff.shape) * kappa,
               "not-identity-on-powered-streams",
               lambda: {"origin": origin, "Heff": Heff, "W": W, "kappa": kappa,
                        "powered": powered})


EXPECT = {"metric": None, "num_streams": None, "big_H": None}     # what the driver last asked for


def post_extint(ctx, args, kwargs, result):
    self = args[0]
    mu = args[1] if len(args) > 1 else kwargs["mu_channel"]
    Ms, Wk, Ns = result
    K = mu.K
    Nr, Nt = np.asarray(mu.Nr), np.asarray(mu.Nt)
    Hfull = np.asarray(mu.big_H)
    # the channel the users really see (what corrupt_data applies), restricted to
    # the users' own transmitters -- not the view the solver itself reads
    Hb = Hfull[:, :int(np.sum(Nt))]
    if EXPECT.get("big_H") is not None:
        # ... and that channel is the one the driver configured (raw matrix and the
        # path loss set LAST), not a stale copy
        Hx = EXPECT["big_H"]
        ok_ch = Hx.shape == Hfull.shape and fro(Hx - Hfull) <= 64 * EPS * (fro(Hx) + 1e-300)
        ctx.ev("stream-counts", ok_ch, cls="channel-object-shows-a-stale-channel",
               detail=lambda: {"big_H": Hfull, "configured": Hx})
        if ok_ch:
            Hfull = Hx
            Hb = Hfull[:, :int(np.sum(Nt))]
    ctx.ev("stream-counts", np.shape(mu.big_H_no_ext_int) == Hb.shape and
           np.array_equal(np.asarray(mu.big_H_no_ext_int), Hb), cls="no-ext-int-view-of-big_H",
           detail=lambda: {"big_H": Hfull, "big_H_no_ext_int": np.asarray(mu.big_H_no_ext_int)})
    Pu = float(self.iPu)
    normH = float(np.linalg.norm(Hb, 2))
    n = Hb.shape[0]
    cr = np.hstack([0, np.cumsum(Nr)])
    metric = getattr(self, "metric_name", "whitening")
    tag = {"class": type(self).__name__, "metric": metric, "K": K, "Nr": Nr, "Nt": Nt,
           "Pu": Pu, "pe": self.pe, "noise_var": mu.noise_var, "Ns": np.asarray(Ns)}
    d = lambda **e: (lambda: {**tag, "big_H": Hfull, **e})
    ok_shapes = len(Ms) == K and len(Wk) == K and len(Ns) == K
    ctx.ev("stream-counts", ok_shapes, cls="lengths", detail=d())
    if not ok_shapes:
        return
    if EXPECT["metric"] is not None and isinstance(self, BD.EnhancedBD):
        # the configuration in force is the one requested LAST
        want = EXPECT["metric"]
        ctx.ev("stream-counts", str(metric) == want, cls="metric-in-force",
               detail=d(requested=want))
        if want in ("naive", "fixed") and EXPECT["num_streams"] is not None:
            ctx.ev("stream-counts", all(int(x) == EXPECT["num_streams"] for x in Ns),
                   cls="requested-number-of-streams",
                   detail=d(requested=EXPECT["num_streams"], metric_requested=want))
    # the whitening variant block-diagonalises W H (W = whitening filters), so
    # its null spaces are accurate relative to ||W H||: seen through the
    # unwhitened channel the leakage is amplified by the condition of W
    kapW_all = 1.0
    if metric == "whitening":
        for j in range(K):
            Hx = Hfull[cr[j]:cr[j + 1], Hb.shape[1]:]
            Rj = self.pe * Hx @ herm(Hx) + (mu.noise_var or 0.0) * np.eye(Nr[j])
            evj = np.linalg.eigvalsh(Rj)
            kapW_all = max(kapW_all, math.sqrt(evj[-1] / evj[0]) if evj[0] > 0 else float("inf"))
    for k in range(K):
        Mk, W_k = np.asarray(Ms[k]), np.asarray(Wk[k])
        ctx.ev("stream-counts", Mk.ndim == 2 and W_k.ndim == 2 and
               int(Ns[k]) == Mk.shape[1] == W_k.shape[0] and Mk.shape[0] == Hb.shape[1]
               and W_k.shape[1] == Nr[k] and 1 <= int(Ns[k]) <= Nt[k],
               cls="Ns-vs-shapes", detail=d(user=k, Ms_shape=Mk.shape, W_shape=W_k.shape))
        if Mk.ndim != 2 or Mk.shape[0] != Hb.shape[1]:
            continue
        ctx.within("extint-user-power", abs(fro(Mk) ** 2 - Pu), 64 * EPS * n * Pu, None,
                   d(user=k, power=fro(Mk) ** 2))
        tol = 256 * EPS * n * normH * max(fro(Mk), 1e-300) * kapW_all
        worst = 0.0
        for j in range(K):
            if j != k:
                worst = max(worst, fro(Hb[cr[j]:cr[j + 1]] @ Mk) / tol)
        ctx.stat("extint-inter-user-null", worst)
        ctx.ev("extint-inter-user-null", worst <= 1.0, detail=d(user=k, worst_over_tol=worst))
        if W_k.ndim == 2 and W_k.shape == (Mk.shape[1], Nr[k]):
            Heq = Hb[cr[k]:cr[k + 1]] @ Mk
            sv = np.linalg.svd(Heq, compute_uv=False)
            kap = sv[0] / sv[-1] if sv[-1] > 0 else float("inf")
            kapW = 1.0
            if metric == "whitening":
                # the filter contains the whitening filter of the ext-int + noise cov.
                Re = self.pe * Hfull[cr[k]:cr[k + 1], Hb.shape[1]:] @ \
                    herm(Hfull[cr[k]:cr[k + 1], Hb.shape[1]:]) + \
                    (mu.noise_var or 0.0) * np.eye(Nr[k])
                ev = np.linalg.eigvalsh(Re)
                kapW = math.sqrt(ev[-1] / ev[0]) if ev[0] > 0 else float("inf")
            # the library forms H_k M_k itself; when the kept stream direction is
            # one where H_k is weak (the naive metric keeps arbitrary columns) the
            # product carries a relative rounding error of eps ||H_k|| ||M_k|| / sigma_min
            amp = max(1.0, float(np.linalg.norm(Hb[cr[k]:cr[k + 1]], 2)) * fro(Mk) /
                      (sv[-1] if sv[-1] > 0 else 1e-300))
            ctx.within("extint-receive-filter",
                       fro(W_k @ Heq - np.eye(Mk.shape[1])),
                       1024 * EPS * n * kap * kapW * amp, "not-identity",
                       d(user=k, WH=W_k @ Heq, kappa=kap))
            # interference-aware reduction: external interference removed
            # completely when enough streams are sacrificed
            Hext = Hfull[cr[k]:cr[k + 1], Hb.shape[1]:]
            rank_ext = np.linalg.matrix_rank(Hext)
            aware = metric == "fixed" or (metric in ("capacity", "effective_throughput")
                                          and int(Ns[k]) < Nt[k])
            if aware and int(Ns[k]) <= Nr[k] - rank_ext and \
                    mu.noise_var is not None and mu.noise_var > 0:
                gap = self.pe * np.linalg.svd(Hext, compute_uv=False)[rank_ext - 1] ** 2
                scale = fro(W_k) * fro(Hext)
                ctx.within("extint-removed", fro(W_k @ Hext),
                           1024 * EPS * n * scale * max(1.0, (self.pe * fro(Hext) ** 2 +
                                                              mu.noise_var) / gap),
                           metric, d(user=k, residual=fro(W_k @ Hext)))


monitors.attach_ensure(BD.BlockDiagonalizer, "block_diagonalize", post_bd(True))
monitors.attach_ensure(BD.BlockDiagonalizer, "block_diagonalize_no_waterfilling",
                       post_bd(False))
monitors.attach_ensure(BD.BlockDiagonalizer, "calc_receive_filter", post_recv)
monitors.attach_ensure(BD.WhiteningBD, "block_diagonalize_no_waterfilling", post_extint,
                       label="WhiteningBD.bd")
monitors.attach_ensure(BD.EnhancedBD, "block_diagonalize_no_waterfilling", post_extint,
                       label="EnhancedBD.bd")


# ----------------------------------------------------------------------------
def gen_channel(rng, K, nant, gclass, extra_cols=0):
    N = K * nant
    H0, kappa = num.controlled_matrix(rng, N, N + extra_cols, 1e2)
    if gclass == "balanced":
        g = np.ones(K)
    elif gclass == "spread-40dB":
        g = 10.0 ** rng.uniform(-2, 0, K)
    else:
        g = 10.0 ** rng.uniform(-5, 0, K)
        g[rng.integers(0, K)] = 1.0
    H = H0 * np.repeat(g, nant)[:, None] * 10.0 ** rng.uniform(-1, 1)
    return np.ascontiguousarray(H), g


GCLASSES = ["balanced", "spread-40dB", "spread-100dB"]


def case_plain(ctx, rng, idx):
    K = int(rng.integers(2, 6))
    nant = int(rng.integers(1, 5))
    gclass = GCLASSES[idx % 3]
    Pu = 10.0 ** rng.uniform(-2, 2)
    noise = 10.0 ** rng.uniform(-4, 0)
    bd = BD.BlockDiagonalizer(K, Pu, noise)
    H, g = gen_channel(rng, K, nant, gclass)
    monitors.ACTIVE[0] = ctx
    try:
        rounds = int(rng.integers(1, 4))
        held = []
        for r in range(rounds):
            kind = "first"
            if r > 0:
                kind = str(rng.choice(["new-array", "in-place", "new-power", "new-noise",
                                       "in-place+power"]))
                if "in-place" in kind:
                    Hn, g = gen_channel(rng, K, nant, gclass)
                    H[:] = Hn                       # same ndarray object, new content
                elif kind == "new-array":
                    H, g = gen_channel(rng, K, nant, gclass)
                if "power" in kind:
                    bd.iPu = 10.0 ** rng.uniform(-2, 2)
                if kind == "new-noise":
                    bd.noise_var = 10.0 ** rng.uniform(-4, 0)
            wf = rng.random() < 0.5
            meth = bd.block_diagonalize if wf else bd.block_diagonalize_no_waterfilling
            d = {"K": K, "nant": nant, "gclass": gclass, "round": kind, "waterfilling": wf}
            okc, res = ctx.call("block-diagonal", meth, H, detail=d)
            if not okc:
                continue
            newH, Ms = res
            # a solution handed out earlier belongs to the caller: a later call on
            # the same object must not change it
            for (ref, cp, what) in held:
                ctx.ev("block-diagonal", np.array_equal(ref, cp),
                       cls="earlier-solution-changed-by-later-call", detail={**d, "array": what})
            held = [(newH, np.array(newH, copy=True), "newH"), (Ms, np.array(Ms, copy=True), "Ms")]
            okc, W = ctx.call("receive-filter", bd.calc_receive_filter, newH, detail=d)
            # the module level helpers must agree with the class
            if r == 0 and rng.random() < 0.3:
                okc, res2 = ctx.call("block-diagonal", BD.block_diagonalize, H, K, bd.iPu,
                                     bd.noise_var, detail=d)
                if okc and wf:
                    ctx.ev("module-function-agrees", np.allclose(res2[1], Ms, rtol=1e-9,
                                                                 atol=1e-12), detail=d)
                ctx.call("receive-filter", BD.calc_receive_filter, newH, detail=d)
            ctx.sig("plain", K, nant, gclass, kind, wf)
        ctx.sample("plain:" + gclass, {"K": K, "antennas": nant, "gains": g, "Pu": bd.iPu,
                                       "noise": bd.noise_var, "rounds": rounds})
    finally:
        monitors.ACTIVE[0] = None


METRICS = ["None", "naive", "fixed", "capacity", "effective_throughput", "whitening"]


def make_mu(rng, K, nant, NtE, noise, gclass="balanced"):
    tot_e = int(np.sum(NtE))
    H, g = gen_channel(rng, K, nant, gclass, extra_cols=tot_e)
    N = K * nant
    ext_gain = 10.0 ** rng.uniform(-1.5, 1.5)
    H[:, N:] *= ext_gain
    mu = MU.MultiUserChannelMatrixExtInt()
    mu.init_from_channel_matrix(H, np.full(K, nant), np.full(K, nant), K,
                                NtE if len(NtE) > 1 else int(NtE[0]))
    mu.noise_var = noise
    LAST_PL[0] = None
    if rng.random() < 0.4:
        # large-scale fading on top: per-link path loss, also towards the
        # external sources
        pl = (10.0 ** rng.uniform(-2, 0, size=(K, K)),
              10.0 ** rng.uniform(-2, 0, size=(K, len(NtE))))
        mu.set_pathloss(pl[0].copy(), pl[1].copy())
        LAST_PL[0] = pl
    return mu, H


LAST_PL = [None]


def expected_big_H(H, K, nant, NtE, pl):
    """The channel as the HARNESS configured it: raw matrix times sqrt(path loss)."""
    if pl is None:
        return np.array(H, copy=True)
    out = np.array(H, dtype=complex, copy=True)
    cols = [nant] * K + list(NtE)
    cc = np.hstack([0, np.cumsum(cols)])
    full = np.hstack([pl[0], pl[1]])
    for k in range(K):
        for j in range(len(cols)):
            out[k * nant:(k + 1) * nant, cc[j]:cc[j + 1]] *= math.sqrt(full[k, j])
    return out


KEEP = []          # other configured objects kept alive across cases


def case_extint(ctx, rng, idx):
    K = int(rng.integers(2, 5))
    nant = int(rng.integers(2, 5))
    metric = METRICS[idx % len(METRICS)]
    nsrc = int(rng.integers(1, 3))
    tot = int(rng.integers(1, nant))                 # total ext-int rank < antennas
    if nsrc == 2 and tot >= 2:
        a = int(rng.integers(1, tot))
        NtE = [a, tot - a]
    else:
        NtE = [tot]
    Pu = 10.0 ** rng.uniform(-2, 2)
    noise = 10.0 ** rng.uniform(-4, 0)
    pe = 10.0 ** rng.uniform(-1.5, 1.5)
    mu, H = make_mu(rng, K, nant, NtE, noise,
                    "balanced" if idx % 2 == 0 else "spread-40dB")
    if metric == "whitening":
        bd = BD.WhiteningBD(K, Pu, noise, pe)
        extra = None
    else:
        bd = BD.EnhancedBD(K, Pu, noise, pe)
        extra = None
        if metric in ("naive", "fixed"):
            lim = nant if metric == "naive" else nant - tot
            ns = int(rng.integers(1, max(1, lim) + 1))
            if metric == "fixed" and rng.random() < 0.25:
                ns = int(rng.integers(1, nant + 1))       # also beyond the guarantee
            extra = {"num_streams": ns}
        elif metric == "effective_throughput":
            mod = [F.BPSK(), F.QPSK(), F.PSK(8), F.QAM(16), F.QAM(64)][int(rng.integers(0, 5))]
            extra = {"modulator": mod, "packet_length": int(rng.choice([1, 60, 1000]))}
        bd.set_ext_int_handling_metric(None if metric == "None" else metric, extra)
        if rng.random() < 0.4:
            # a sweep keeps several configured objects alive: configuring
            # another one must not change this one
            other = BD.EnhancedBD(K, Pu, noise, pe)
            mo = str(rng.choice(["naive", "fixed", "fixed", "capacity"]))
            other.set_ext_int_handling_metric(
                mo, {"num_streams": int(rng.integers(1, nant + 1))}
                if mo in ("naive", "fixed") else None)
            KEEP.append(other)
            del KEEP[:-4]
    EXPECT["metric"] = metric if metric != "whitening" else None
    EXPECT["num_streams"] = (extra or {}).get("num_streams")
    EXPECT["big_H"] = expected_big_H(H, K, nant, NtE, LAST_PL[0])
    d = {"K": K, "nant": nant, "NtE": NtE, "metric": metric,
         "extra": {k: (v if isinstance(v, int) else repr(v)) for k, v in (extra or {}).items()},
         "Pu": Pu, "noise": noise, "pe": pe}
    monitors.ACTIVE[0] = ctx
    try:
        okc, res = ctx.call("extint-inter-user-null", bd.block_diagonalize_no_waterfilling,
                            mu, detail=d)
        if okc and rng.random() < 0.5:
            # second round on the same objects: new power / new channel
            bd.iPu = 10.0 ** rng.uniform(-2, 2)
            if rng.random() < 0.5:
                mu.randomize(nant, nant, K, NtE if len(NtE) > 1 else int(NtE[0]))
                EXPECT["big_H"] = None          # (a channel the harness does not know)
            if rng.random() < 0.4:
                # new large-scale fading on the same channel object
                pl2 = (10.0 ** rng.uniform(-2, 0, size=(K, K)),
                       10.0 ** rng.uniform(-2, 0, size=(K, len(NtE))))
                mu.set_pathloss(pl2[0].copy(), pl2[1].copy())
                if EXPECT["big_H"] is not None:
                    EXPECT["big_H"] = expected_big_H(H, K, nant, NtE, pl2)
            d2 = {**d, "round": 2}
            if metric != "whitening" and rng.random() < 0.6:
                # the same object is reconfigured: same metric with another
                # stream count, or another metric
                m2 = metric if (metric in ("naive", "fixed") and rng.random() < 0.6) else \
                    str(rng.choice(["None", "naive", "fixed", "capacity"]))
                extra2 = None
                if m2 in ("naive", "fixed"):
                    lim = nant if m2 == "naive" else nant - tot
                    extra2 = {"num_streams": int(rng.integers(1, max(1, lim) + 1))}
                bd.set_ext_int_handling_metric(None if m2 == "None" else m2, extra2)
                EXPECT["metric"], EXPECT["num_streams"] = m2, (extra2 or {}).get("num_streams")
                d2 = {**d2, "metric": m2, "extra": extra2, "reconfigured-from": metric}
            ctx.call("extint-inter-user-null", bd.block_diagonalize_no_waterfilling, mu,
                     detail=d2)
        ctx.sig("extint", K, nant, tuple(NtE), metric, (extra or {}).get("num_streams"))
        ctx.sample("extint:" + metric, d)
    finally:
        monitors.ACTIVE[0] = None
        EXPECT["metric"] = EXPECT["num_streams"] = EXPECT["big_H"] = None


def case_bad_metric(ctx, rng, idx):
    bd = BD.EnhancedBD(2, 1.0, 0.1, 1.0)
    bad = [("bogus", None), ("naive", None), ("naive", {}), ("effective_throughput", {}),
           ("effective_throughput", {"modulator": F.BPSK()})][idx % 5]
    try:
        bd.set_ext_int_handling_metric(bad[0], bad[1])
        ctx.ev("metric-validation", False, cls="accepted", detail={"metric": bad[0]})
    except AttributeError:
        ctx.ev("metric-validation", True)
    ctx.sig("bad-metric", idx % 5)


GENS = {
    "plain": Gen(case_plain, 900, 250000),
    "extint": Gen(case_extint, 900, 250000),
    "bad-metric": Gen(case_bad_metric, 5, 5, exhaustive=True),
}
MIN_EVALS = {"block-diagonal": 800, "power-budget": 2000, "receive-filter": 800,
             "newH=H*Ms": 800, "extint-inter-user-null": 1500,
             "extint-user-power": 1500, "extint-receive-filter": 1500,
             "stream-counts": 1500, "extint-removed": 100}
