"""C04 -- MIMO schemes recover the data over any full-rank channel within the
power budget; ZF / MMSE filters satisfy their defining equations."""
from __future__ import annotations

import math
import warnings

import numpy as np

from .core import Gen
from . import monitors, num
from .num import EPS, fro, herm

from pyphysim.mimo import mimo as M

warnings.filterwarnings("ignore")

ID = "C04"
RULE = ("channels H = U diag(s) V^H with prescribed singular values (kappa "
        "log-uniform in [1,1e4], classes log-uniform / equal / repeated / "
        "two-level, overall scale over 4 decades) for every scheme and shape "
        "(BLAST, SVD, GMD: Nt 1..6, Nr Nt..8 incl. rectangular; MRC Nr x 1 "
        "given as vector or matrix; MRT 1 x Nt as vector or matrix; Alamouti "
        "Nr x 2), real / complex / integer data of 1..8 channel uses; one "
        "object is re-used for 1-3 channels (set_channel_matrix) and noise "
        "settings.  icontract postconditions on every encode() check shape and "
        "energy per channel use; the driver checks decode(H encode(x)) = x and "
        "the filter equations.  Signature = (scheme, Nr, Nt, sv-class, data "
        "kind, round); non-trivial = more than one antenna or channel use."
        "The received block must be unchanged by decode. "
        "A sixth of the filter cases use an integer-dtype channel (int16/32/64). ")
ASSUMPTIONS = ["round trips use noise variance 0/None (with noise the BLAST "
               "family switches to the biased MMSE filter by design)",
               "tolerance 256 eps n kappa(H) ||x||"]


def post_encode(ctx, args, kwargs, result):
    self = args[0]
    x = np.asarray(args[1] if len(args) > 1 else kwargs["transmit_data"])
    y = np.asarray(result)
    name = type(self).__name__
    if getattr(self, "_channel", None) is None:
        return              # encode() before any channel was set (Alamouti allows it)
    Nt = self.Nt
    ok_shape = y.ndim == 2 and y.shape[0] == Nt
    ctx.ev("encode-shape", ok_shape, cls=name,
           detail=lambda: {"scheme": name, "Nt": Nt, "in": x.shape, "out": y.shape})
    if not ok_shape or y.shape[1] == 0:
        return
    per_use = fro(y) ** 2 / y.shape[1]
    mean_sym = float(np.mean(np.abs(x.astype(complex)) ** 2))
    ctx.within("energy-per-channel-use", abs(per_use - mean_sym),
               64 * EPS * (Nt + 4) * max(mean_sym, 1e-300), name,
               lambda: {"scheme": name, "Nt": Nt, "per_use": per_use, "mean_symbol": mean_sym,
                        "data": x.ravel()[:6]})


for _cls in (M.Blast, M.MRT, M.SVDMimo, M.GMDMimo, M.Alamouti):
    monitors.attach_ensure(_cls, "encode", post_encode, label=_cls.__name__ + ".encode")

SVK = ["loguniform", "equal", "repeated", "two-level"]
SCHEMES = ["blast", "mrc", "mrt", "svd", "gmd", "alamouti"]


def gen_channel(rng, scheme, kind):
    given, H, kap = _gen_channel(rng, scheme, kind)
    c = rng.random()
    if c < 0.2:
        # real-valued channel stored with a real dtype (complex data still sent)
        given, H = np.ascontiguousarray(given.real), np.ascontiguousarray(H.real)
        sv = np.linalg.svd(np.atleast_2d(H), compute_uv=False)
        if sv[-1] < 1e-3 * sv[0]:
            return _gen_channel(rng, scheme, kind)
        kap = float(sv[0] / sv[-1])
    elif c < 0.3 and scheme == "mrt" and H.size > 1:
        # a transmit antenna with an exactly zero coefficient
        z = int(rng.integers(0, H.size))
        H = H.copy()
        H[0, z] = 0.0
        given = H[0].copy() if given.ndim == 1 else H.copy()
    return given, H, kap


def _gen_channel(rng, scheme, kind):
    scale = 10.0 ** rng.uniform(-2, 2)
    if rng.random() < 0.15:
        scale = 10.0 ** rng.uniform(-8, -5)        # a channel that includes path loss
    if scheme in ("blast", "svd", "gmd"):
        Nt = int(rng.integers(1, 7))
        Nr = int(rng.integers(Nt, 9))
        if rng.random() < 0.3:
            Nr = Nt
        H, kap = num.controlled_matrix(rng, Nr, Nt, 1e4, False, kind, scale)
        return H, H, kap
    if scheme == "mrc":
        Nr = int(rng.integers(1, 9))
        h = num.randn_c(rng, Nr) * scale
        given = h if rng.random() < 0.5 else h[:, None]
        return given, h[:, None], 1.0
    if scheme == "mrt":
        Nt = int(rng.integers(1, 9))
        h = num.randn_c(rng, Nt) * scale
        given = h if rng.random() < 0.5 else h[None, :]
        return given, h[None, :], 1.0
    Nr = int(rng.integers(1, 9))
    H, kap = num.controlled_matrix(rng, Nr, 2, 1e4, False, kind, scale) if Nr >= 2 else \
        (num.randn_c(rng, 1, 2) * scale, 1.0)
    given = H[0] if (Nr == 1 and rng.random() < 0.5) else H
    return given, H, kap


def gen_data(rng, n, dkind):
    if dkind == "complex":
        return num.randn_c(rng, n) * 10.0 ** rng.uniform(-1, 1)
    if dkind == "real":
        return rng.standard_normal(n)
    if dkind == "int":
        return rng.integers(-3, 4, size=n)
    if dkind == "qam":
        return (rng.integers(0, 4, n) * 2 - 3 + 1j * (rng.integers(0, 4, n) * 2 - 3)) / math.sqrt(10)
    raise ValueError(dkind)


DKINDS = ["complex", "real", "int", "qam"]
CLASSES = {"blast": M.Blast, "mrc": M.MRC, "mrt": M.MRT, "svd": M.SVDMimo, "gmd": M.GMDMimo,
           "alamouti": M.Alamouti}


def case_roundtrip(ctx, rng, idx):
    scheme = SCHEMES[idx % len(SCHEMES)]
    kind = SVK[(idx // len(SCHEMES)) % len(SVK)]
    obj = None
    buf = None
    monitors.ACTIVE[0] = ctx
    try:
        rounds = int(rng.integers(1, 4))
        for r in range(rounds):
            given, H, kap = gen_channel(rng, scheme, kind)
            if r > 0 and buf is not None and np.iscomplexobj(buf) and rng.random() < 0.4:
                # a new realisation of the same dimensions (for the refilled buffer)
                Hn = num.randn_c(rng, *prevH.shape) * float(np.linalg.norm(prevH, 2))
                sv = np.linalg.svd(Hn, compute_uv=False)
                if sv[-1] > 1e-3 * sv[0]:
                    H, kap = Hn, float(sv[0] / sv[-1])
                    given = Hn.reshape(buf.shape)
            prevH = H
            Nr, Nt = H.shape
            tag = {"scheme": scheme, "Nr": Nr, "Nt": Nt, "kappa": kap, "svals": kind,
                   "round": r, "H": H}
            if obj is None or rng.random() < 0.3:
                how = "ctor"
                buf = given.copy()
                okc, obj = ctx.call("round-trip", CLASSES[scheme], buf, detail=tag)
            elif buf is not None and buf.shape == given.shape and buf.dtype == given.dtype \
                    and rng.random() < 0.5:
                # the caller keeps ONE channel buffer: the new realisation is written
                # into it in place and the same array object is handed over again
                how = "set_channel_matrix(same buffer refilled)"
                buf[...] = given
                okc, _ = ctx.call("round-trip", obj.set_channel_matrix, buf, detail=tag)
            else:
                how = "set_channel_matrix"
                buf = given.copy()
                okc, _ = ctx.call("round-trip", obj.set_channel_matrix, buf, detail=tag)
            if not okc:
                return
            if scheme in ("blast", "mrc", "gmd") and rng.random() < 0.7:
                if rng.random() < 0.6:
                    # the object was used with noise (MMSE receiver) before
                    obj.set_noise_var(float(10.0 ** rng.uniform(-3, 0.5)))
                    xx = gen_data(rng, Nt if scheme != "mrc" else 1, "complex")
                    obj.decode(H @ np.asarray(obj.encode(xx)))
                    how += "+noise-then-zero"
                obj.set_noise_var(None if rng.random() < 0.5 else
                                  (0.0 if rng.random() < 0.5 else 0))
            layers = obj.getNumberOfLayers()
            ctx.ev("layers", layers == {"blast": Nt, "mrc": 1, "mrt": 1, "svd": Nt, "gmd": Nt,
                                        "alamouti": 1}[scheme] and obj.Nt == Nt and obj.Nr == Nr,
                   cls=scheme, detail={**tag, "layers": layers})
            uses = int(rng.integers(1, 9))
            n = uses * (Nt if scheme in ("blast", "svd", "gmd") else 1)
            if scheme == "alamouti":
                n = 2 * uses
            dkind = DKINDS[int(rng.integers(0, len(DKINDS)))]
            x = gen_data(rng, n, dkind)
            xb = x.copy()
            okc, enc = ctx.call("round-trip", obj.encode, x, detail={**tag, "data": x})
            if not okc:
                continue
            ctx.ev("args-not-mutated", np.array_equal(x, xb), cls=scheme + ".encode",
                   detail=tag)
            ctx.hold("round-trip", scheme + ".encode", enc, tag)
            rx = H @ np.asarray(enc)
            rxb = rx.copy()
            okc, dec = ctx.call("round-trip", obj.decode, rx, cls="decode-exception",
                                detail={**tag, "data": x, "how": how})
            if not okc:
                continue
            # the received block belongs to the caller (decoded again by another
            # receiver, stored, compared): decoding must leave it as it was
            ctx.ev("args-not-mutated", np.array_equal(rx, rxb), cls=scheme + ".decode",
                   detail={**tag, "how": how})
            ctx.hold("round-trip", scheme + ".decode", dec, tag)
            dec = np.asarray(dec)
            ctx.ev("round-trip", dec.shape == (n,), cls=scheme + ":shape",
                   detail={**tag, "got": dec.shape, "n": n})
            if dec.shape == (n,):
                ctx.within("round-trip", fro(dec - x),
                           256 * EPS * (Nr + Nt) * kap * max(fro(x), 1e-300),
                           scheme + (":rectangular" if Nr != Nt else ":square"),
                           {**tag, "data": x, "decoded": dec, "dkind": dkind, "how": how})
            if Nr * Nt > 1 or uses > 1:
                ctx.sig(scheme, Nr, Nt, kind, dkind, r, how)
        ctx.sample(scheme, {"scheme": scheme, "Nr": Nr, "Nt": Nt, "kappa": kap,
                            "rounds": rounds, "data_head": x[:3]})
    finally:
        monitors.ACTIVE[0] = None


def case_filters(ctx, rng, idx):
    Nt = int(rng.integers(1, 7))
    Nr = int(rng.integers(Nt, 9))
    kind = SVK[idx % len(SVK)]
    H, kap = num.controlled_matrix(rng, Nr, Nt, 1e4, bool(idx % 2), kind,
                                   10.0 ** rng.uniform(-1, 1))
    if idx % 6 == 3:
        # a channel held in an integer dtype (quantised taps, a 0/+-1 toy matrix)
        for _ in range(20):
            # (not int8: H^H H of such entries does not fit int8, and numpy computes
            #  an integer Gram matrix in the caller's dtype -- the caller's precision)
            Hi = rng.integers(-6, 7, size=(Nr, Nt)).astype(
                [np.int64, np.int32, np.int16][int(rng.integers(0, 3))])
            sv = np.linalg.svd(Hi.astype(float), compute_uv=False)
            if sv[-1] > 1e-6 * sv[0] and sv[0] / sv[-1] < 1e3:
                H, kap = Hi, float(sv[0] / sv[-1])
                break
    tag = {"Nr": Nr, "Nt": Nt, "kappa": kap, "H": H, "dtype": str(H.dtype)}
    okc, Z = ctx.call("zf-filter", M.MimoBase._calcZeroForceFilter, H, detail=tag)
    if okc:
        ctx.within("zf-filter", fro(np.asarray(Z) @ H - np.eye(Nt)), 256 * EPS * Nr * kap,
                   None, tag)
    smax = np.linalg.svd(H, compute_uv=False)[0]
    prev = None
    mono = True
    dists = []
    for e in (-1, -2, -4, -6, -8, -10, -12):
        sig2 = (smax ** 2) * 10.0 ** e
        okc, W = ctx.call("mmse-filter", M.MimoBase._calcMMSEFilter, H, sig2, detail=tag)
        if not okc:
            return
        W = np.asarray(W)
        ref = np.linalg.solve(herm(H) @ H + sig2 * np.eye(Nt), herm(H))
        kap_reg = (smax ** 2 + sig2) / ((smax / kap) ** 2 + sig2)
        ctx.within("mmse-filter", fro(W - ref), 256 * EPS * Nr * kap_reg * fro(ref),
                   "defining-equation", {**tag, "noise_var": sig2})
        # (H^H H + s I) W = H^H
        ctx.within("mmse-filter", fro((herm(H) @ H + sig2 * np.eye(Nt)) @ W - herm(H)),
                   256 * EPS * Nr * kap_reg * fro(H), "normal-equations",
                   {**tag, "noise_var": sig2})
        dist = fro(W - np.linalg.pinv(H))
        dists.append(dist)
        if prev is not None and dist > prev * (1 + 1e-6) + 256 * EPS * kap ** 2 * fro(W):
            mono = False
        prev = dist
    ctx.ev("mmse-tends-to-zf", mono, cls="not-monotone", detail={**tag, "dists": dists})
    zfn = fro(np.linalg.pinv(H))
    ctx.within("mmse-tends-to-zf", dists[-1], (1e-12 * kap ** 2 + 256 * EPS * Nr * kap) * zfn
               * 10, "limit", {**tag, "dists": dists})
    # the BLAST receive filter picks ZF at zero noise and MMSE otherwise
    for nv in (0.0, float(smax ** 2 * 1e-2)):
        okc, G = ctx.call("mmse-filter", M.Blast._calc_receive_filter, H, nv, detail=tag)
        if okc:
            want = (np.linalg.pinv(H) if nv == 0 else
                    np.linalg.solve(herm(H) @ H + nv * np.eye(Nt), herm(H))) * math.sqrt(Nt)
            ctx.within("mmse-filter", fro(np.asarray(G) - want),
                       256 * EPS * Nr * kap * fro(want), "blast-receive-filter",
                       {**tag, "noise_var": nv})
    ctx.sig("filters", Nr, Nt, kind, idx % 2)


def case_reject(ctx, rng, idx):
    which = idx % 5
    try:
        if which == 0:
            M.MRT(num.randn_c(rng, int(rng.integers(2, 5)), int(rng.integers(1, 5))))
            what = "MRT with Nr > 1"
        elif which == 1:
            nt = int(rng.choice([1, 3, 4, 5]))
            M.Alamouti(num.randn_c(rng, int(rng.integers(2, 5)), nt))
            what = "Alamouti with Nt != 2"
        elif which == 2:
            o = M.MRT()
            o.set_channel_matrix(num.randn_c(rng, 3, 2))
            what = "MRT.set_channel_matrix with Nr > 1"
        else:
            cls = [M.Blast, M.SVDMimo, M.GMDMimo][idx % 3]
            Nt = int(rng.integers(2, 5))
            o = cls(num.randn_c(rng, Nt + 1, Nt))
            n = Nt * int(rng.integers(1, 4)) + int(rng.integers(1, Nt))
            o.encode(num.randn_c(rng, n))
            what = "%s.encode with %d symbols for %d layers" % (cls.__name__, n, Nt)
        ctx.ev("rejects-wrong-shapes", False, cls="accepted", detail={"what": what})
    except ValueError:
        ctx.ev("rejects-wrong-shapes", True)
    except Exception as e:
        ctx.ev("rejects-wrong-shapes", False, cls="wrong-exception",
               detail={"which": which, "exc": repr(e)})
    ctx.sig("reject", which, idx % 3)


def classify(w):
    return None


GENS = {
    "roundtrip": Gen(case_roundtrip, 2400, 2000000),
    "filters": Gen(case_filters, 800, 600000),
    "reject": Gen(case_reject, 60, 600),
}
MIN_EVALS = {"round-trip": 3000, "energy-per-channel-use": 3000, "encode-shape": 3000,
             "zf-filter": 500, "mmse-filter": 5000, "mmse-tends-to-zf": 500,
             "rejects-wrong-shapes": 50, "layers": 2000}
