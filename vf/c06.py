"""C06 -- combining simulation results is independent of how repetitions were
grouped; merging never mutates the merged-in operand."""
from __future__ import annotations

import copy
import math

import numpy as np

from .core import Gen
from .num import EPS

from pyphysim.simulations.results import (Result, SimulationResults,
                                          combine_simulation_results)
from pyphysim.simulations.parameters import SimulationParameters

ID = "C06"
RULE = ("an observation sequence of 1-40 update(value,total) calls x a "
        "partition into 1-8 contiguous non-empty chunks x a merge association "
        "order (left fold, right fold, random binary tree) x the four result "
        "types x value accumulation on/off, in two value classes: EXACT "
        "(integers / dyadic rationals, totals powers of two: compared with ==) "
        "and FLOAT (compared within n eps).  The reference is the single big "
        "accumulation of the flattened sequence.  Every object ever passed as "
        "the merged-in operand is snapshotted and re-compared after the merge "
        "and again at the end of the history.  Set level: the same law through "
        "merge_all_results / append_all_results on 1-3 result names, and "
        "combine_simulation_results on grids with 0-100 % overlapping unpacked "
        "values.  Signature = (level, type, accumulate, value class, #chunks, "
        "tree kind, sequence-length class); non-trivial = at least two chunks "
        "or two operands.  "
        "Half of the chunks are built through Result.create; the runner's skip "
        "counter is present in a random subset of the merged sets; the multi "
        "generator holds 2-5 parameter combinations in one object "
        "(append_all_results, then merge_all_results under random groupings); "
        "combine grids use parameter names whose text order differs from their "
        "numeric order. "
        "Combine is driven with all four result types and with grids around zero; the accumulate flag reaches Result as bool / numpy bool / 0-1. "
        "A fifth of the chunk sets, 30 % of the combined sets and 40 % of the intermediate unions go through dict / JSON before they are merged. "
        "Generator array-sum: sum results of integer vectors reported from one refilled buffer. ")
ASSUMPTIONS = ["chunks are non-empty (a MISC result merged with a never-updated "
               "operand is outside 'the last observation wins')",
               "statistics are read through the public to_dict()/getters"]

TYPES = [Result.SUMTYPE, Result.RATIOTYPE, Result.MISCTYPE, Result.CHOICETYPE]
TNAME = {Result.SUMTYPE: "SUM", Result.RATIOTYPE: "RATIO", Result.MISCTYPE: "MISC",
         Result.CHOICETYPE: "CHOICE"}
CHOICE_NUM = 5


def gen_obs(rng, t, n, vclass):
    obs = []
    for _ in range(n):
        if t == Result.CHOICETYPE:
            k = int(rng.integers(0, CHOICE_NUM))
            obs.append((k if rng.random() < 0.5 else np.int64(k), None))
        elif vclass == "exact":
            v = int(rng.integers(-40, 41)) if rng.random() < 0.5 else \
                float(rng.integers(-64, 65)) / 8.0
            tot = float(2 ** int(rng.integers(0, 6))) if rng.random() < 0.5 else \
                int(2 ** int(rng.integers(0, 6)))
            obs.append((v, tot if t == Result.RATIOTYPE else None))
        else:
            v = float(rng.standard_normal() * 10.0 ** rng.uniform(-3, 3))
            tot = float(10.0 ** rng.uniform(-1, 3))
            obs.append((v, tot if t == Result.RATIOTYPE else None))
    return obs


def new_result(name, t, acc):
    if t == Result.CHOICETYPE:
        return Result(name, t, accumulate_values=acc, choice_num=CHOICE_NUM)
    return Result(name, t, accumulate_values=acc)


def accumulate(name, t, acc, obs, via_create=False):
    if via_create and obs:
        # the documented shortcut: create the object together with its first update
        v, tot = obs[0]
        if t == Result.CHOICETYPE:
            r = Result.create(name, t, v, CHOICE_NUM, accumulate_values=acc)
        elif tot is None:
            r = Result.create(name, t, v, accumulate_values=acc)
        else:
            r = Result.create(name, t, v, tot, accumulate_values=acc)
        obs = obs[1:]
    else:
        r = new_result(name, t, acc)
    for v, tot in obs:
        if tot is None:
            r.update(v)
        else:
            r.update(v, tot)
    return r


def stats(r):
    d = r.to_dict()
    out = {k: d[k] for k in ("value", "total", "result_sum", "result_squared_sum",
                             "num_updates", "value_list", "total_list",
                             "accumulate_values_bool", "update_type_code", "name")}
    if isinstance(out["value"], np.ndarray):
        out["value"] = out["value"].tolist()
    out["value_list"] = [x.item() if isinstance(x, np.generic) else x
                         for x in out["value_list"]]
    out["get_result"] = r.get_result()
    if isinstance(out["get_result"], np.ndarray):
        out["get_result"] = out["get_result"].tolist()
    if r.num_updates:
        out["mean"] = r.get_result_mean()
        out["var"] = r.get_result_var()
    return out


MISC_FIELDS = ("value", "get_result", "value_list", "name", "update_type_code",
               "accumulate_values_bool")


def scales_of(t, obs):
    """Backward-error scales (sums of absolute values) for the float class."""
    if t == Result.CHOICETYPE or not obs:
        return {}
    v = np.array([float(x) for x, _ in obs])
    if t == Result.RATIOTYPE:
        tt = np.array([float(y) for _, y in obs])
        r = np.abs(v / tt)
        S1, S2 = float(r.sum()), float((r ** 2).sum())
        return {"value": float(np.abs(v).sum()), "total": float(np.abs(tt).sum()),
                "result_sum": S1, "result_squared_sum": S2,
                "get_result": float(np.abs(v).sum() / tt.sum()), "mean": S1 / len(obs),
                "var": S2 / len(obs) + (S1 / len(obs)) ** 2}
    S1, S2 = float(np.abs(v).sum()), float((v ** 2).sum())
    return {"value": S1, "total": 1.0, "result_sum": S1, "result_squared_sum": S2,
            "get_result": S1, "mean": S1 / len(obs),
            "var": S2 / len(obs) + (S1 / len(obs)) ** 2}


def same_stats(a, b, exact, n, scales=None):
    """Compare two stats dicts; returns the first differing key or None.
    For MISC results only 'the last observation wins' is required (the update
    count and the running sums of a MISC result are not part of the law)."""
    misc = a.get("update_type_code") == Result.MISCTYPE
    scales = scales or {}
    for k in a:
        if misc and k not in MISC_FIELDS:
            continue
        x, y = a[k], b[k]
        if exact or misc or k in ("num_updates", "value_list", "total_list", "name",
                                  "update_type_code", "accumulate_values_bool"):
            if x != y:
                return k
        else:
            xa, ya = np.asarray(x, dtype=float), np.asarray(y, dtype=float)
            scale = max(scales.get(k, 0.0), float(np.max(np.abs(xa))) if xa.size else 0.0,
                        1e-300)
            tol = 64 * n * EPS * scale
            if xa.shape != ya.shape or float(np.max(np.abs(xa - ya))) > tol:
                return k
    return None


class OperandLog:
    """Every object used as merged-in operand, with its snapshot."""

    def __init__(self, ctx, monitor, tag):
        self.ctx, self.monitor, self.tag = ctx, monitor, tag
        self.items = []

    def merge(self, target, other, snap_fn, merge_fn):
        before = snap_fn(other)
        merge_fn(target, other)
        after = snap_fn(other)
        self.ctx.ev(self.monitor, before == after, cls="operand-changed-by-merge",
                    detail=lambda: {**self.tag, "before": before, "after": after})
        self.items.append((other, before, snap_fn))

    def final(self):
        for other, before, snap_fn in self.items:
            now = snap_fn(other)
            self.ctx.ev(self.monitor, now == before, cls="operand-changed-later(aliasing)",
                        detail=lambda: {**self.tag, "before": before, "now": now})


def merge_tree(objs, kind, rng, do_merge):
    """Merge a list of objects order-preservingly; returns the merged object."""
    objs = list(objs)
    if kind == "into-fresh":
        # merge every chunk into a fresh, never updated object (what
        # combine_simulation_results and user code accumulating results do)
        acc = objs[0].__class__(objs[0].name, objs[0].type_code,
                                accumulate_values=objs[0].accumulate_values_bool,
                                choice_num=CHOICE_NUM) \
            if objs[0].type_code == Result.CHOICETYPE else \
            objs[0].__class__(objs[0].name, objs[0].type_code,
                              accumulate_values=objs[0].accumulate_values_bool)
        for o in objs:
            do_merge(acc, o)
        return acc
    if kind == "left":
        acc = objs[0]
        for o in objs[1:]:
            do_merge(acc, o)
        return acc
    if kind == "right":
        while len(objs) > 1:
            do_merge(objs[-2], objs[-1])
            objs.pop()
        return objs[0]
    while len(objs) > 1:                      # random binary tree
        i = int(rng.integers(0, len(objs) - 1))
        do_merge(objs[i], objs[i + 1])
        del objs[i + 1]
    return objs[0]


def partition(rng, n, k):
    cuts = sorted(rng.choice(np.arange(1, n), size=k - 1, replace=False).tolist()) if k > 1 else []
    return [0] + cuts + [n]


def snap_result(r):
    return repr(sorted((k, repr(v)) for k, v in stats(r).items()))


def case_result(ctx, rng, idx):
    t = TYPES[idx % 4]
    acc = bool((idx // 4) % 2)
    if rng.random() < 0.25:
        # the flag as the caller holds it (result of a numpy comparison, 0/1):
        # whatever it means for the history lists, it means the same for every grouping
        acc = [np.bool_(acc), int(acc)][int(rng.integers(0, 2))]
    vclass = "exact" if (idx // 8) % 2 == 0 else "float"
    if t == Result.CHOICETYPE:
        vclass = "exact"
    n = int(rng.integers(1, 41))
    k = int(rng.integers(1, min(n, 8) + 1))
    tree = ["left", "right", "random", "into-fresh"][int(rng.integers(0, 4))]
    obs = gen_obs(rng, t, n, vclass)
    tag = {"type": TNAME[t], "accumulate": "%s(%s)" % (type(acc).__name__, acc), "vclass": vclass,
           "n": n, "chunks": k,
           "tree": tree, "obs_head": [(repr(v), repr(tt)) for v, tt in obs[:6]]}
    okc, ref = ctx.call("grouping-independent", accumulate, "r", t, acc, obs, detail=tag)
    if not okc:
        return
    bounds = partition(rng, n, k)
    if t != Result.MISCTYPE and rng.random() < 0.2:
        # a worker that contributed nothing: an empty chunk somewhere in the split
        # (for MISC results "the last observation" of an empty chunk is undefined)
        j = int(rng.integers(0, len(bounds)))
        bounds = bounds[:j] + [bounds[min(j, len(bounds) - 1)]] + bounds[j:]
        bounds = sorted(bounds)
        k = len(bounds) - 1
        tag["empty_chunk"] = True
    okc, parts = ctx.call("grouping-independent",
                          lambda: [accumulate("r", t, acc, obs[bounds[i]:bounds[i + 1]],
                                              via_create=bool(rng.integers(0, 2)))
                                   for i in range(k)], detail=tag)
    if not okc:
        return
    if vclass == "exact" and rng.random() < 0.2:
        # the chunks come from files: stored as dict / JSON by the workers and
        # loaded again before they are merged
        how = "dict" if rng.random() < 0.5 else "json"
        okc, parts = ctx.call(
            "grouping-independent",
            lambda: [Result.from_dict(r.to_dict()) if how == "dict" else
                     Result.from_json(r.to_json()) for r in parts],
            cls="chunks-stored-and-loaded:raised", detail=tag)
        if not okc:
            return
        tag["chunks_stored_as"] = how
    tag["bounds"] = bounds
    log = OperandLog(ctx, "operand-not-mutated", tag)
    okc, merged = ctx.call(
        "grouping-independent", merge_tree, parts, tree, rng,
        lambda a, b: log.merge(a, b, snap_result, lambda x, y: x.merge(y)), detail=tag)
    if not okc:
        return
    log.final()
    sa, sb = stats(merged), stats(ref)
    diff = same_stats(sa, sb, vclass == "exact", n, scales_of(t, obs))
    ctx.ev("grouping-independent", diff is None, cls="%s:%s" % (TNAME[t], diff),
           detail=lambda: {**tag, "field": diff, "merged": sa, "single": sb})
    if vclass == "exact":
        ctx.ev("equality-operator", merged == ref and not (merged != ref), cls=TNAME[t],
               detail=lambda: {**tag, "merged": sa, "single": sb})
    # update() state transition of the single accumulation
    ctx.ev("update-counts", ref.num_updates == n, cls=TNAME[t], detail=tag)
    if t == Result.MISCTYPE:
        ctx.ev("misc-last-wins", merged.get_result() == obs[-1][0] or
               (merged.get_result() != merged.get_result()), cls="merged",
               detail=lambda: {**tag, "got": merged.get_result(), "last": obs[-1][0]})
    if t == Result.RATIOTYPE and vclass == "exact":
        sv = sum(v for v, _ in obs)
        st = sum(tt for _, tt in obs)
        ctx.ev("grouping-independent", merged.get_result() == sv / st, cls="RATIO:closed-form",
               detail=lambda: {**tag, "got": merged.get_result(), "want": sv / st})
    if t == Result.CHOICETYPE:
        cnt = np.bincount([int(v) for v, _ in obs], minlength=CHOICE_NUM)
        ctx.ev("grouping-independent",
               np.array_equal(np.asarray(merged.to_dict()["value"]), cnt) and
               merged.to_dict()["total"] == n, cls="CHOICE:closed-form",
               detail=lambda: {**tag, "got": merged.to_dict()["value"], "want": cnt})
    if k > 1 or tree == "into-fresh":
        ctx.sig("result", TNAME[t], acc, vclass, k, tree, n > 10)
    ctx.sample("result:" + TNAME[t], tag)


# ------------------------------------------------------------------ sets -----
def make_set(rng, names, kinds, accs, nobs, vclass):
    """One 'repetition batch': a SimulationResults with one Result per name."""
    sr = SimulationResults()
    obs_by_name = {}
    for nm, t, acc in zip(names, kinds, accs):
        obs = gen_obs(rng, t, nobs, vclass if t != Result.CHOICETYPE else "exact")
        obs_by_name[nm] = obs
        sr.add_result(accumulate(nm, t, acc, obs, via_create=bool(rng.integers(0, 2))))
    return sr, obs_by_name


def snap_set(sr):
    return repr(sorted((nm, [snap_result(r) for r in sr[nm]]) for nm in sr.get_result_names()))


def case_set(ctx, rng, idx):
    nnames = int(rng.integers(1, 4))
    names = ["res%d" % i for i in range(nnames)]
    kinds = [TYPES[int(rng.integers(0, 4))] for _ in names]
    accs = [bool(rng.integers(0, 2)) for _ in names]
    vclass = "exact" if idx % 2 == 0 else "float"
    nsets = int(rng.integers(2, 7))
    tree = ["left", "right", "random", "left-into-empty"][int(rng.integers(0, 4))]
    tag = {"names": names, "types": [TNAME[t] for t in kinds], "accumulate": accs,
           "vclass": vclass, "sets": nsets, "tree": tree}
    try:
        sets, allobs = [], {nm: [] for nm in names}
        for _ in range(nsets):
            sr, ob = make_set(rng, names, kinds, accs, int(rng.integers(1, 6)), vclass)
            sets.append(sr)
            for nm in names:
                allobs[nm].extend(ob[nm])
        # the runner's skip counter: present only in the batches that skipped
        skip_total, skip_sets = 0, []
        if idx % 3 == 0:
            for i, sr in enumerate(sets):
                if rng.random() < 0.5:
                    k = int(rng.integers(1, 5))
                    r = Result("num_skipped_reps", Result.SUMTYPE)
                    for _ in range(k):
                        r.update(1)
                    sr.add_result(r)
                    skip_total += k
                    skip_sets.append(i)
            tag["skip-counter-in-sets"] = skip_sets
    except Exception as e:
        import traceback
        ctx.ev("set-grouping-independent", False, cls="build-raised:" + type(e).__name__,
               detail={**tag, "tb": traceback.format_exc(limit=-3)})
        return
    log = OperandLog(ctx, "operand-not-mutated", tag)
    domerge = lambda a, b: log.merge(a, b, snap_set, lambda x, y: x.merge_all_results(y))
    if tree == "left-into-empty":
        # the way the runner accumulates: start from an EMPTY results object
        target = SimulationResults()
        if rng.random() < 0.5:
            # user code commonly looks at the (still empty) accumulator first
            ctx.ev("set-grouping-independent", list(target.get_result_names()) == [] and
                   len(target) == 0, cls="empty-accumulator", detail=tag)
        okc, _ = ctx.call("set-grouping-independent",
                          lambda: [domerge(target, s) for s in sets], detail=tag)
        merged = target
    else:
        okc, merged = ctx.call("set-grouping-independent", merge_tree, sets, tree, rng, domerge,
                               detail=tag)
    if not okc:
        return
    log.final()
    for nm, t, acc in zip(names, kinds, accs):
        ref = accumulate(nm, t, acc, allobs[nm])
        got = merged[nm][-1]
        diff = same_stats(stats(got), stats(ref), vclass == "exact" or t == Result.CHOICETYPE,
                          len(allobs[nm]), scales_of(t, allobs[nm]))
        ctx.ev("set-grouping-independent", diff is None and len(merged[nm]) == 1,
               cls="%s:%s" % (TNAME[t], diff),
               detail=lambda: {**tag, "name": nm, "field": diff, "merged": stats(got),
                               "single": stats(ref)})
    if skip_sets:
        got = merged["num_skipped_reps"][-1].get_result() \
            if "num_skipped_reps" in merged.get_result_names() else None
        ctx.ev("set-grouping-independent", got == skip_total, cls="skip-counter-conserved",
               detail={**tag, "got": got, "want": skip_total})
    # append_all_results keeps every operand's Result, in order
    app = SimulationResults()
    for s in sets:
        app.append_all_results(s)
    ok = all(len(app[nm]) == nsets for nm in names)
    ctx.ev("append-keeps-all", ok, cls="count", detail=tag)
    ctx.sig("set", nnames, tuple(TNAME[t] for t in kinds), vclass, tree, nsets)
    ctx.sample("set", tag)


def case_multi(ctx, rng, idx):
    """Several parameter combinations in one object (append_all_results), each
    receiving its repetitions through merge_all_results under a random
    grouping: every combination must equal the single-object accumulation of
    ITS OWN repetitions, and earlier combinations must not change."""
    nnames = int(rng.integers(1, 4))
    names = ["res%d" % i for i in range(nnames)]
    kinds = [TYPES[int(rng.integers(0, 4))] for _ in names]
    accs = [bool(rng.integers(0, 2)) for _ in names]
    vclass = "exact" if idx % 2 == 0 else "float"
    ncomb = int(rng.integers(2, 6))
    grouping = ["one-by-one", "rest-first", "random"][int(rng.integers(0, 3))]
    tag = {"names": names, "types": [TNAME[t] for t in kinds], "accumulate": accs,
           "vclass": vclass, "combinations": ncomb, "grouping": grouping}
    total = SimulationResults()
    log = OperandLog(ctx, "operand-not-mutated", tag)
    domerge = lambda a, b: log.merge(a, b, snap_set, lambda x, y: x.merge_all_results(y))
    per_comb = []

    def build():
        for c in range(ncomb):
            nreps = int(rng.integers(1, 6))
            reps, obs = [], {nm: [] for nm in names}
            for _ in range(nreps):
                sr, ob = make_set(rng, names, kinds, accs, int(rng.integers(1, 4)), vclass)
                reps.append(sr)
                for nm in names:
                    obs[nm].extend(ob[nm])
            per_comb.append(obs)
            before = [[snap_result(r) for r in total[nm]] for nm in names] if c else None
            total.append_all_results(reps[0])
            rest = reps[1:]
            if grouping == "one-by-one" or len(rest) < 2:
                for r in rest:
                    domerge(total, r)
            elif grouping == "rest-first":
                acc = rest[0]
                for r in rest[1:]:
                    domerge(acc, r)
                domerge(total, acc)
            else:
                domerge(total, merge_tree(rest, "random", rng, domerge))
            if c:
                now = [[snap_result(r) for r in total[nm]][:c] for nm in names]
                ctx.ev("earlier-combinations-untouched", now == before, cls="changed",
                       detail=lambda: {**tag, "combination": c, "before": before, "now": now})

    okc, _ = ctx.call("set-grouping-independent", build, cls="multi", detail=tag)
    if not okc:
        return
    log.final()
    for nm, t, acc in zip(names, kinds, accs):
        ctx.ev("set-grouping-independent", len(total[nm]) == ncomb, cls="multi:count",
               detail={**tag, "name": nm, "got": len(total[nm])})
        if len(total[nm]) != ncomb:
            continue
        for c in range(ncomb):
            ref = accumulate(nm, t, acc, per_comb[c][nm])
            got = total[nm][c]
            diff = same_stats(stats(got), stats(ref), vclass == "exact" or t == Result.CHOICETYPE,
                              len(per_comb[c][nm]), scales_of(t, per_comb[c][nm]))
            ctx.ev("set-grouping-independent", diff is None, cls="multi:%s:%s" % (TNAME[t], diff),
                   detail=lambda: {**tag, "name": nm, "combination": c, "field": diff,
                                   "merged": stats(got), "single": stats(ref)})
    ctx.sample("multi", tag)
    ctx.sig("multi", nnames, tuple(TNAME[t] for t in kinds), vclass, grouping, ncomb)


def case_combine(ctx, rng, idx):
    """combine_simulation_results on grids with overlapping unpacked values."""
    nunp = int(rng.integers(1, 3))
    t = [Result.SUMTYPE, Result.RATIOTYPE, Result.CHOICETYPE, Result.MISCTYPE][idx % 4]
    acc = False
    universe = {"a": np.arange(1, 7), "b": np.array([0.5, 1.0, 2.5, 4.0])}
    if (idx // 9) % 3 == 2:
        # values around zero (SNRs in dB, offsets): 0 / 0.0 is a value like any other
        universe = {"a": np.arange(-2, 4), "b": np.array([-5.0, 0.0, 5.0, 10.0])}
    if (idx // 9) % 3 == 1:
        # closely spaced tiny values (noise variances and the like)
        universe = {"a": np.arange(1, 7) * 1e-9, "b": np.array([1e-12, 1e-11, 3e-12, 2e-10])}
    # parameter names as users write them; with digit runs the text order
    # ('p10' < 'p2') is not the numeric one
    n0, n1 = [("a", "b"), ("p10", "p2"), ("user2_power", "user10_power"), ("b", "a")][
        int(rng.integers(0, 4))]
    universe = {n0: universe["a"], n1: universe["b"]}
    unp = [n0, n1][:nunp]
    overlap = ["none", "partial", "full"][(idx // 3) % 3]

    def pick(vals):
        k = int(rng.integers(1, len(vals)))
        return np.sort(rng.choice(vals, size=k, replace=False))

    def make(vals_by_name):
        p = SimulationParameters()
        p.add("fixed", 7)
        p.add("label", "x")
        p.add("rep_max", 50)          # (every set produced by a runner carries it)
        for nm in unp:
            p.add(nm, vals_by_name[nm])
            p.set_unpack_parameter(nm)
        sr = SimulationResults()
        sr.set_parameters(p)
        store = {}
        for var in p.get_unpacked_params_list():
            key = tuple(float(var[nm]) for nm in unp)
            obs = gen_obs(rng, t, int(rng.integers(1, 5)), "exact")
            store[key] = obs
            sr.append_result(accumulate("r", t, acc, obs))
        return sr, store

    v1 = {nm: pick(universe[nm]) for nm in unp}
    if overlap == "full":
        v2 = {nm: v1[nm].copy() for nm in unp}
    elif overlap == "none":
        v2 = {nm: np.setdiff1d(universe[nm], v1[nm]) for nm in unp}
    else:
        v2 = {nm: pick(universe[nm]) for nm in unp}
    tag = {"type": TNAME[t], "unpacked": unp, "overlap": overlap,
           "values1": {k: v.tolist() for k, v in v1.items()},
           "values2": {k: v.tolist() for k, v in v2.items()}}
    okc, r1 = ctx.call("combine-per-combination", make, v1, detail=tag)
    okc2, r2 = ctx.call("combine-per-combination", make, v2, detail=tag)
    if not (okc and okc2):
        return
    (sr1, st1), (sr2, st2) = r1, r2
    if rng.random() < 0.3:
        # the two sets are read from result files (JSON) before they are combined
        okc, both = ctx.call("combine-per-combination", lambda: [
            SimulationResults.from_json(x.to_json()) for x in (sr1, sr2)],
            cls="sets-stored-and-loaded:raised", detail=tag)
        if not okc:
            return
        sr1, sr2 = both
        tag["sets_loaded_from_json"] = True
    s1, s2 = snap_set(sr1), snap_set(sr2)
    okc, union = ctx.call("combine-per-combination", combine_simulation_results, sr1, sr2,
                          detail=tag)
    if not okc:
        return
    ctx.ev("operand-not-mutated", snap_set(sr1) == s1 and snap_set(sr2) == s2,
           cls="combine_simulation_results", detail=tag)
    up = union.params
    ok_grid = all(np.array_equal(np.asarray(up[nm]), np.union1d(v1[nm], v2[nm])) for nm in unp)
    ctx.ev("combine-per-combination", ok_grid and up.unpacked_parameters == sorted(unp) and
           up["fixed"] == 7, cls="union-grid", detail=tag)
    variations = up.get_unpacked_params_list()
    ctx.ev("combine-per-combination", len(union["r"]) == len(variations), cls="result-count",
           detail={**tag, "got": len(union["r"]), "want": len(variations)})
    if len(union["r"]) != len(variations):
        return
    for var, got in zip(variations, union["r"]):
        key = tuple(float(var[nm]) for nm in unp)
        obs = st1.get(key, []) + st2.get(key, [])
        ref = accumulate("r", t, acc, obs)
        if not obs:
            ctx.ev("combine-per-combination", got.num_updates == 0, cls="in-neither",
                   detail={**tag, "key": key})
            continue
        diff = same_stats(stats(got), stats(ref), True, len(obs))
        ctx.ev("combine-per-combination", diff is None,
               cls="%s:%s:%s" % (TNAME[t], "both" if key in st1 and key in st2 else "one", diff),
               detail=lambda: {**tag, "key": key, "got": stats(got), "want": stats(ref)})
    ctx.ev("combine-per-combination", set(up.parameters.keys()) == set(sr1.params.parameters.keys())
           and up["rep_max"] == 50 and up["label"] == "x", cls="union-keeps-fixed-parameters",
           detail={**tag, "union_keys": sorted(up.parameters.keys())})
    # three sets, combined in two steps in both groupings
    if idx % 2 == 0:
        v3 = {nm: pick(universe[nm]) for nm in unp}
        okc, r3 = ctx.call("combine-per-combination", make, v3, detail=tag)
        if okc:
            sr3, st3 = r3
            tag3 = {**tag, "values3": {k: v.tolist() for k, v in v3.items()}}
            stored = rng.random() < 0.4      # the intermediate union goes through a JSON file
            tag3["intermediate_union_stored_as_json"] = stored
            keep = (lambda u: SimulationResults.from_json(u.to_json())) if stored else (lambda u: u)
            okc, ua = ctx.call("combine-per-combination", lambda: combine_simulation_results(
                keep(combine_simulation_results(sr1, sr2)), sr3), cls="nested:(A+B)+C raised",
                detail=tag3)
            okc2, ub = ctx.call("combine-per-combination", lambda: combine_simulation_results(
                sr1, combine_simulation_results(sr2, sr3)), cls="nested:A+(B+C) raised", detail=tag3)
            if okc and okc2:
                va = ua.params.get_unpacked_params_list()
                same_grid = len(ua["r"]) == len(ub["r"]) == len(va) and all(
                    np.array_equal(np.asarray(ua.params[nm]), np.asarray(ub.params[nm]))
                    for nm in unp)
                ctx.ev("combine-per-combination", same_grid, cls="nested:grids-differ", detail=tag3)
                if same_grid:
                    for var, ga, gb in zip(va, ua["r"], ub["r"]):
                        key = tuple(float(var[nm]) for nm in unp)
                        obs = st1.get(key, []) + st2.get(key, []) + st3.get(key, [])
                        if not obs:
                            continue
                        ref = accumulate("r", t, acc, obs)
                        da = same_stats(stats(ga), stats(ref), True, len(obs))
                        db = same_stats(stats(gb), stats(ref), True, len(obs))
                        ctx.ev("combine-per-combination", da is None and db is None,
                               cls="nested:%s:%s/%s" % (TNAME[t], da, db),
                               detail=lambda: {**tag3, "key": key, "(A+B)+C": stats(ga),
                                               "A+(B+C)": stats(gb), "want": stats(ref)})
    ctx.sig("combine", TNAME[t], nunp, overlap)
    ctx.sample("combine", tag)


def case_array_sum(ctx, rng, idx):
    """Sum results whose observations are small integer vectors (per-subcarrier
    error counts and the like), reported by the caller from ONE buffer that is
    refilled for every observation."""
    n = int(rng.integers(1, 30))
    k = int(rng.integers(1, min(n, 6) + 1))
    width = int(rng.integers(1, 6))
    obs = rng.integers(0, 50, size=(n, width))
    acc = bool(idx % 2)
    tag = {"type": "SUM", "observations": "int vectors of length %d" % width, "n": n,
           "chunks": k, "accumulate": acc, "obs_head": obs[:3].tolist()}

    def run(rows):
        r = Result("r", Result.SUMTYPE, accumulate_values=acc)
        buf = np.zeros(width, dtype=obs.dtype)
        for row in rows:
            buf[:] = row                 # the caller's buffer, refilled each time
            r.update(buf)
        return r
    okc, ref = ctx.call("grouping-independent", run, obs, cls="array-sum:raised", detail=tag)
    if not okc:
        return
    total = obs.sum(axis=0)
    ctx.ev("grouping-independent", np.array_equal(np.asarray(ref.get_result()), total) and
           ref.num_updates == n, cls="array-sum:single-accumulation",
           detail=lambda: {**tag, "got": np.asarray(ref.get_result()), "want": total})
    bounds = partition(rng, n, k)
    okc, parts = ctx.call("grouping-independent",
                          lambda: [run(obs[bounds[i]:bounds[i + 1]]) for i in range(k)],
                          cls="array-sum:raised", detail=tag)
    if not okc:
        return
    snaps = [np.array(p.get_result(), copy=True) if p.num_updates else None for p in parts]
    merged = parts[0]
    try:
        for p in parts[1:]:
            merged.merge(p)
    except Exception as e:          # noqa: BLE001
        ctx.ev("grouping-independent", False, cls="array-sum:merge-raised:" + type(e).__name__,
               detail={**tag, "exc": repr(e)})
        return
    ctx.ev("grouping-independent", np.array_equal(np.asarray(merged.get_result()), total) and
           merged.num_updates == n, cls="array-sum:merged",
           detail=lambda: {**tag, "bounds": bounds, "got": np.asarray(merged.get_result()),
                           "want": total})
    for p, s0 in list(zip(parts, snaps))[1:]:
        if s0 is not None:
            ctx.ev("operand-not-mutated", np.array_equal(np.asarray(p.get_result()), s0),
                   cls="array-sum:merged-in-operand", detail=tag)
    # (the optional history list keeps the observation OBJECTS it was given, i.e.
    #  the caller's refilled buffer; C06 speaks of value, total, counts, mean and
    #  variance, so the history of array observations is not judged here)
    ctx.sig("array-sum", width, k, acc)


def classify(w):
    return None


GENS = {
    "result": Gen(case_result, 10000, 2000000),
    "set": Gen(case_set, 3000, 700000),
    "multi": Gen(case_multi, 1500, 400000),
    "combine": Gen(case_combine, 1200, 300000),
    "array-sum": Gen(case_array_sum, 400, 100000),
}
MIN_EVALS = {"grouping-independent": 4000, "operand-not-mutated": 8000,
             "set-grouping-independent": 1500, "combine-per-combination": 1500,
             "equality-operator": 1000, "update-counts": 3000, "misc-last-wins": 300,
             "append-keeps-all": 500, "earlier-combinations-untouched": 500}
