"""C14 -- Jakes fading samples do not depend on how generation was chunked."""
from __future__ import annotations

import math

import numpy as np

from .core import Gen
from .num import EPS

from pyphysim.channels import fading_generators as FG

ID = "C14"
RULE = ("histories of 1-60 generate(n)/skip(n) requests on one generator "
        "(n in {1,2,3,7,100,1e3,1e5} or log-uniform 1..2e5, skips up to 1e10 samples with cumulative "
        "positions 1e3..1e10 each forced) x Ts in {1e-9,3.25e-8,1e-4,1e-3,0.37,"
        "1} x Fd in {0,5,100,0.3/Ts, log-uniform 1e-3..0.3/Ts} x L in 1..20 x shapes None / int / (2,) / "
        "(3,2).  The monitor keeps an integer sample counter and evaluates the "
        "closed-form Jakes sum in longdouble with the phases recorded from the "
        "RandomState the generator was given; a black-box twin (same seed, one "
        "skip + one request) decides chunking independence without internals.  "
        "Signature = (shape kind, L, Fd class, Ts, decade of position, request "
        "size, previous op); non-trivial = a request answered after at least "
        "one earlier request or skip.  Request/skip sizes are passed as Python "
        "ints or np.int16/32/64; every returned chunk is held by reference and "
        "re-compared after later requests; the module-level "
        "generate_jakes_samples() is driven in chains that pass the returned time "
        "and the same phases back in (start indexes up to 1e10).  The long-run "
        "generator fetches one stretch in 300-6000 consecutive requests of 1-3 "
        "samples (a per-symbol simulator loop) starting at positions 1..1e10 and "
        "decides its tail against the model and the whole stretch against ONE "
        "request of a twin generator."
        "Shape 1 (int) is a shape of its own; one case in seven makes requests of several million ray samples in the quick tier. "
        "A fifth of the function cases supply only psi. ")
ASSUMPTIONS = [
    "sample k is compared within sqrt(L) (2 pi Fd t_k eps 40 + 1e-12): any "
    "implementation that forms k*Ts in double meets it, a relative drift of "
    "1e-10 per sample does not",
    "the generator draws its phases from the RandomState passed as RS "
    "(documented parameter); which recorded draw is phi/psi is identified "
    "from sample 0"]


class RecordingRS:
    """RandomState proxy handed to the generator: records every rand() draw."""

    def __init__(self, seed):
        self.rs = np.random.RandomState(seed)
        self.draws = []

    def rand(self, *a):
        v = self.rs.rand(*a)
        self.draws.append(np.array(v, copy=True))
        return v

    def __getattr__(self, name):
        return getattr(self.rs, name)


def model_samples(phi, psi, Fd, Ts, L, ks):
    """h_k for the integer sample indexes ks (1-D int array), longdouble."""
    ld = np.longdouble
    t = np.asarray(ks, dtype=object)
    tk = np.array([ld(int(k)) for k in t]) * ld(Ts)             # exact k, then * Ts
    w = ld(2) * ld(np.pi) * ld(Fd) * np.cos(phi.astype(ld))      # L x shape x 1
    ph = w * tk + psi.astype(ld)                                 # broadcast over last axis
    # reduce the phase before converting back to double
    twopi = ld(2) * ld(np.pi)
    ph = ph - np.floor(ph / twopi) * twopi
    h = np.sum(np.exp(1j * ph.astype(float)), axis=0) / math.sqrt(L)
    return h


def build(rng, seed, Fd, Ts, L, shape):
    rec = RecordingRS(seed)
    g = FG.JakesSampleGenerator(Fd, Ts, L, shape=shape, RS=rec)
    return g, rec


SHAPES = [None, 3, (2,), (3, 2), 1]      # (the int 1 is a shape of its own: (1, n) samples)
# shapes assigned later: also same rank / same number of links, other entries
SHAPES_SET = SHAPES + [(2, 3), (6,), (1, 6), (3,), (1, 2), (1,), (1, 1)]
TS = [1e-9, 3.25e-8, 1e-4, 1e-3, 0.37, 1.0]
NS = [1, 2, 3, 7, 100, 1000, 100000]


def shape_tuple(shape):
    if shape is None:
        return ()
    if isinstance(shape, int):
        return (shape,)
    return tuple(shape)


def case_history(ctx, rng, idx):
    shape = SHAPES[idx % len(SHAPES)]
    Ts = TS[(idx // len(SHAPES)) % len(TS)]
    fdk = (idx // (len(SHAPES) * len(TS))) % 6
    Fd = [0.0, 5.0, 100.0, 0.3 / Ts,
          float(10.0 ** rng.uniform(-3, math.log10(0.3 / Ts))),     # 4: log-uniform
          float(rng.uniform(1.0, 5.0)) / Ts][fdk]                    # 5: Fd*Ts >= 1 (undersampled)
    if Fd * Ts > 0.5 and fdk != 5:
        Fd = 0.3 / Ts
    L = int(rng.integers(1, 21)) if rng.random() < 0.85 else int(rng.integers(21, 70))
    seed = int(rng.integers(0, 2 ** 31))
    st = shape_tuple(shape)
    cells = int(np.prod(st)) if st else 1
    tag = {"Fd": Fd, "Ts": Ts, "L": L, "shape": shape, "seed": seed}
    okc, res = ctx.call("request-shape", build, rng, seed, Fd, Ts, L, shape, detail=tag)
    if not okc:
        return
    g, rec = res
    # ---- identify phi / psi from the recorded draws and sample 0
    first = np.asarray(g.get_samples())
    ctx.ev("request-shape", first.shape == st + (1,), cls="constructor-sample",
           detail={**tag, "got": first.shape})
    phi = psi = None
    want_shape = (L,) + st + (1,)
    cands = [d for d in rec.draws if d.shape == want_shape]
    if len(cands) >= 2 and first.shape == st + (1,):
        for a, b in ((cands[0], cands[1]), (cands[1], cands[0])):
            h0 = model_samples(2 * np.pi * a, 2 * np.pi * b, Fd, Ts, L, [0])
            if np.max(np.abs(h0 - first)) <= 1e-12 * math.sqrt(L) + 64 * EPS * math.sqrt(L):
                phi, psi = 2 * np.pi * a, 2 * np.pi * b
                break
    if phi is None and len(cands) >= 2 and first.shape == st + (1,):
        # both phase draws were observed, yet neither assignment reproduces
        # sample 0 of the model
        ctx.ev("sample-equals-model", False, cls="sample-0",
               detail={**tag, "sample0": first.ravel()[:3],
                       "note": "neither assignment of the two recorded phase draws "
                               "reproduces the first sample"})
    elif phi is None:
        ctx.tally("absolute-model-not-attached")
    else:
        ctx.ev("sample-equals-model", True)
    k = 1                       # the constructor produced sample 0
    held = None
    pending = []
    hist = ["ctor"]
    force_pos = [None, 1e3, 1e5, 1e7, 1e9, 1e10][int(rng.integers(0, 6))]
    nreq = int(rng.integers(1, 61)) if ctx.tier == "thorough" else int(rng.integers(1, 13))
    for r in range(nreq):
        if (force_pos and r == 0) or rng.random() < 0.3:
            nskip = int(force_pos) if (force_pos and r == 0) else \
                int(10.0 ** rng.uniform(0, 9.5))
            if k + nskip > 2e10:
                nskip = 1
            stype = [int, int, np.int64, np.int32][int(rng.integers(0, 4))]
            if stype is np.int32 and nskip >= 2 ** 31:
                stype = np.int64
            okc, _ = ctx.call("request-shape", g.skip_samples_for_next_generation, stype(nskip),
                              detail={**tag, "skip": nskip, "skip_type": stype.__name__, "k": k})
            if not okc:
                return
            k += nskip
            hist.append("skip")
        if rng.random() < 0.12:
            # the shape is (re)assigned through the public setter -- possibly to
            # the value it already has.  New phases are drawn; the model learns
            # them from the RandomState proxy and from the next samples.
            newshape = SHAPES_SET[int(rng.integers(0, len(SHAPES_SET)))] if rng.random() < 0.6 \
                else shape
            ndraw = len(rec.draws)
            okc, _ = ctx.call("request-shape", setattr, g, "shape", newshape,
                              cls="shape-setter", detail={**tag, "new_shape": newshape})
            if not okc:
                return
            shape = newshape
            st = shape_tuple(shape)
            cells = int(np.prod(st)) if st else 1
            tag["shape"] = shape
            want_shape = (L,) + st + (1,)
            fresh = [dd for dd in rec.draws[ndraw:] if dd.shape == want_shape]
            pending = [(2 * np.pi * fresh[0], 2 * np.pi * fresh[1]),
                       (2 * np.pi * fresh[1], 2 * np.pi * fresh[0])] if len(fresh) >= 2 else []
            phi = psi = None
            first = None
            hist.append("shape=")
            seed = None                      # the black-box twin no longer applies
        n = NS[int(rng.integers(0, len(NS)))]
        if rng.random() < 0.35:
            n = int(10.0 ** rng.uniform(0, 5.3))      # arbitrary, not round, sizes
        # (one case in seven also makes requests of several million ray samples
        #  in the quick tier: the size at which an implementation may switch path)
        while n * L * cells > (4e6 if ctx.tier == "thorough" or idx % 7 == 3 else 3e5):
            n //= 10
        n = max(n, 1)
        use_none = n == 1 and rng.random() < 0.3
        # the request size as the caller happens to hold it: a Python int or a
        # fixed-width numpy integer
        ntype = [int, int, np.int64, np.int32, np.int16][int(rng.integers(0, 5))]
        if ntype is np.int16 and n > 32000:
            ntype = np.int32
        d = lambda **e: (lambda: {**tag, "k": k, "n": n, "n_type": ntype.__name__,
                                  "history": hist[-8:], **e})
        okc, _ = ctx.call("request-shape", g.generate_more_samples,
                          *(() if use_none else (ntype(n),)), cls="generate-raised", detail=d())
        if not okc:
            return
        if held is not None:
            # a chunk handed out earlier belongs to the caller (a stretch is
            # collected chunk by chunk): later requests must not change it
            ctx.ev("chunking-independent", np.array_equal(held[0], held[1]),
                   cls="earlier-chunk-changed-by-later-request", detail=d(earlier_request=held[2]))
        s = g.get_samples()
        held = (s, np.array(s, copy=True), "k=%d n=%d" % (k, n))
        s = np.asarray(s)
        okshape = s.shape == st + (n,)
        ctx.ev("request-shape", okshape, cls="wrong-count-or-shape",
               detail=d(got=s.shape, want=st + (n,)))
        if not okshape:
            return
        ctx.ev("magnitude-bound", bool(np.all(np.abs(s) <= math.sqrt(L) * (1 + 8 * EPS))),
               detail=d(max=float(np.abs(s).max())))
        if phi is None and pending:
            # identify the redrawn phases from this request (either assignment
            # of the two recorded draws must reproduce it)
            tk0 = float((k + n) * Ts)
            tol0 = math.sqrt(L) * (2 * math.pi * Fd * tk0 * EPS * 40 + 1e-12)
            for a_, b_ in pending:
                hm0 = model_samples(a_, b_, Fd, Ts, L, [k])
                if float(np.max(np.abs(s[..., :1] - hm0))) <= tol0:
                    phi, psi = a_, b_
                    break
            ctx.ev("sample-equals-model", phi is not None, cls="after-shape-assignment",
                   detail=d(note="neither assignment of the redrawn phases reproduces the "
                            "samples generated after the shape was set"))
            pending = []
        if Fd == 0.0:
            if first is None:
                first = s[..., :1].copy()
            ctx.ev("zero-doppler-constant",
                   bool(np.all(np.abs(s - first[..., :1]) <= 64 * EPS * math.sqrt(L))),
                   detail=d())
        if phi is not None:
            # decide a subsample of the request: ends, and a few inside
            pick = np.unique(np.concatenate([[0, n - 1], rng.integers(0, n, size=min(n, 6))]))
            ks = k + pick
            hm = model_samples(phi, psi, Fd, Ts, L, ks)
            tk = float((k + n) * Ts)
            tol = math.sqrt(L) * (2 * math.pi * Fd * tk * EPS * 40 + 1e-12)
            err = float(np.max(np.abs(s[..., pick] - hm)))
            ctx.stat("sample-equals-model", err / tol)
            ctx.ev("sample-equals-model", err <= tol, n=len(pick),
                   cls="pos<1e6" if k < 1e6 else "pos>=1e6",
                   detail=d(error=err, tolerance=tol, got=s[..., pick].ravel()[:3],
                            want=hm.ravel()[:3]))
        # black-box twin: same seed, one skip then one request
        if seed is not None and rng.random() < (0.5 if n <= 1000 else 0.15):
            g2, _ = build(rng, seed, Fd, Ts, L, shape)
            if k - 1 > 0:
                g2.skip_samples_for_next_generation(k - 1)
            try:
                g2.generate_more_samples(n)
                s2 = np.asarray(g2.get_samples())
                tk = float((k + n) * Ts)
                tol = math.sqrt(L) * (2 * math.pi * Fd * tk * EPS * 80 + 1e-12)
                same = s2.shape == s.shape and float(np.max(np.abs(s2 - s))) <= tol
                ctx.ev("chunking-independent", same, cls="twin",
                       detail=d(twin_shape=s2.shape,
                                maxdiff=float(np.max(np.abs(s2 - s))) if s2.shape == s.shape
                                else None, tolerance=tol))
            except Exception as e:
                ctx.ev("chunking-independent", False, cls="twin-raised",
                       detail=d(exc=repr(e)))
        ctx.sig(len(st), L > 8, fdk, Ts, int(math.log10(max(k, 1))), n, hist[-1])
        k += n
        hist.append("gen%d" % n)
    if idx % 4 == 0:
        # a "similar" generator (same configuration, fresh phases from the global
        # numpy stream) obeys the same law: two chunks equal one request of a
        # generator built directly with the same configuration and stream state
        sd = int(rng.integers(0, 2 ** 31))
        np.random.seed(sd)
        okc, g2 = ctx.call("chunking-independent", g.get_similar_fading_generator,
                           cls="similar:raised", detail=tag)
        if okc:
            np.random.seed(sd)
            g3 = FG.JakesSampleGenerator(Fd, Ts, L, shape=shape)
            n1, n2 = int(rng.integers(1, 200)), int(rng.integers(1, 200))
            g2.generate_more_samples(n1)
            a = np.array(g2.get_samples(), copy=True)
            g2.generate_more_samples(n2)
            b = np.asarray(g2.get_samples())
            g3.generate_more_samples(n1 + n2)
            c = np.asarray(g3.get_samples())
            tol = math.sqrt(L) * (2 * math.pi * Fd * (n1 + n2 + 1) * Ts * EPS * 80 + 1e-12)
            ab = np.concatenate([a, b], axis=-1)
            ctx.ev("chunking-independent", ab.shape == c.shape and
                   float(np.max(np.abs(ab - c))) <= tol, cls="similar-generator",
                   detail={**tag, "n1": n1, "n2": n2, "shapes": [ab.shape, c.shape]})
    ctx.sample("history", {**tag, "history": hist[:12], "final_position": k})


def partial_phases(ctx, rng, idx):
    """generate_jakes_samples() with only ONE of the two phase sets supplied:
    the supplied one is used as given (the other is drawn).  With psi given the
    sample at time 0 is sum(exp(j psi)) / sqrt(L) whatever phi is drawn, and at
    zero Doppler every sample has that value."""
    shape = [None, (2,), (3, 2)][idx % 3]
    st = shape_tuple(shape)
    L = int(rng.integers(1, 12))
    Ts = TS[int(rng.integers(0, len(TS)))]
    psi = rng.random((L,) + st + (1,)) * 2 * np.pi
    n = int(rng.integers(1, 40))
    want0 = np.sum(np.exp(1j * psi), axis=0)[..., 0] / math.sqrt(L)
    for Fd in (0.0, float(10.0 ** rng.uniform(-3, math.log10(0.3 / Ts)))):
        tag = {"Fd": Fd, "Ts": Ts, "L": L, "shape": shape, "entry": "function:psi-only"}
        okc, res = ctx.call("request-shape", FG.generate_jakes_samples, Fd, Ts, n, L, shape, 0.0,
                            None, psi, cls="function-raised", detail=tag)
        if not okc:
            continue
        h = np.asarray(res[1])
        if h.shape != st + (n,):
            ctx.ev("request-shape", False, cls="function:wrong-count-or-shape",
                   detail={**tag, "got": h.shape})
            continue
        cols = h if Fd == 0.0 else h[..., :1]
        err = float(np.max(np.abs(cols - want0[..., None])))
        ctx.ev("sample-equals-model", err <= 64 * EPS * math.sqrt(L) * 4, n=cols.size,
               cls="function:supplied-psi-not-used",
               detail={**tag, "error": err, "got": cols.ravel()[:3], "want": want0.ravel()[:3]})


def case_function(ctx, rng, idx):
    """The module-level entry point generate_jakes_samples(): a stretch is
    continued by passing the returned time and the same phases back in."""
    if idx % 5 == 2:
        partial_phases(ctx, rng, idx)
    shape = [None, (2,), (3, 2)][idx % 3]
    Ts = TS[(idx // 3) % len(TS)]
    Fd = [0.0, 5.0, 100.0, 0.3 / Ts, float(10.0 ** rng.uniform(-3, math.log10(0.3 / Ts)))][
        (idx // (3 * len(TS))) % 5]
    if Fd * Ts > 0.5:
        Fd = 0.3 / Ts
    L = int(rng.integers(1, 21))
    st = shape_tuple(shape)
    cells = int(np.prod(st)) if st else 1
    phi = rng.random((L,) + st + (1,)) * 2 * np.pi
    psi = rng.random((L,) + st + (1,)) * 2 * np.pi
    k = 0 if rng.random() < 0.3 else int(10.0 ** rng.uniform(0, 10))
    t = k * Ts
    tag = {"Fd": Fd, "Ts": Ts, "L": L, "shape": shape, "start_index": k, "entry": "function"}
    steps = 0
    for r in range(int(rng.integers(1, 9))):
        n = NS[int(rng.integers(0, len(NS)))] if rng.random() < 0.6 else \
            int(10.0 ** rng.uniform(0, 5.3))
        while n * L * cells > 3e5:
            n //= 10
        n = max(n, 1)
        d = lambda **e: (lambda: {**tag, "k": k, "n": n, "request": r, "current_time": t, **e})
        okc, res = ctx.call("request-shape", FG.generate_jakes_samples, Fd, Ts, n, L, shape, t,
                            phi, psi, cls="function-raised", detail=d())
        if not okc:
            return
        t2, h = res
        h = np.asarray(h)
        okshape = h.shape == st + (n,)
        ctx.ev("request-shape", okshape, cls="function:wrong-count-or-shape",
               detail=d(got=h.shape, want=st + (n,)))
        if not okshape:
            return
        steps += 1
        tk = float((k + n) * Ts)
        ctx.ev("magnitude-bound", bool(np.all(np.abs(h) <= math.sqrt(L) * (1 + 8 * EPS))),
               detail=d(max=float(np.abs(h).max())))
        pick = np.unique(np.concatenate([[0, n - 1], rng.integers(0, n, size=min(n, 6))]))
        hm = model_samples(phi, psi, Fd, Ts, L, k + pick)
        tol = math.sqrt(L) * (2 * math.pi * Fd * tk * EPS * (40 + 4 * steps) + 1e-12)
        err = float(np.max(np.abs(h[..., pick] - hm)))
        ctx.stat("sample-equals-model", err / tol)
        ctx.ev("sample-equals-model", err <= tol, n=len(pick), cls="function",
               detail=d(error=err, tolerance=tol, got=h[..., pick].ravel()[:3],
                        want=hm.ravel()[:3]))
        ctx.sample("function", {**tag, "k": k, "n": n, "head": h.ravel()[:3]})
        ctx.sig("fn", len(st), Ts, int(math.log10(max(k, 1))), n, r > 0)
        k += n
        t = t2


def case_longrun(ctx, rng, idx):
    """A long stretch fetched in hundreds to thousands of tiny requests (the
    way a per-symbol simulator loop uses the generator), starting at small and
    at very large positions: sample k must still be the model value at k*Ts,
    and the concatenation must equal ONE request of a twin generator."""
    shape = [None, (2,)][idx % 2]
    Ts = [1e-3, 1e-4, 3.25e-8, 0.37, 1e-9][(idx // 2) % 5]
    Fd = [100.0, 0.3 / Ts, 5.0][(idx // 10) % 3]
    if Fd * Ts > 0.5:
        Fd = 0.3 / Ts
    L = int(rng.integers(1, 4))
    seed = int(rng.integers(0, 2 ** 31))
    st = shape_tuple(shape)
    tag = {"Fd": Fd, "Ts": Ts, "L": L, "shape": shape, "seed": seed, "entry": "long-run"}
    okc, res = ctx.call("request-shape", build, rng, seed, Fd, Ts, L, shape, detail=tag)
    if not okc:
        return
    g, rec = res
    first = np.asarray(g.get_samples())
    want_shape = (L,) + st + (1,)
    cands = [d for d in rec.draws if d.shape == want_shape]
    phi = psi = None
    if len(cands) >= 2 and first.shape == st + (1,):
        for a, b in ((cands[0], cands[1]), (cands[1], cands[0])):
            h0 = model_samples(2 * np.pi * a, 2 * np.pi * b, Fd, Ts, L, [0])
            if np.max(np.abs(h0 - first)) <= 1e-12 * math.sqrt(L) + 64 * EPS * math.sqrt(L):
                phi, psi = 2 * np.pi * a, 2 * np.pi * b
                break
    start = [0, 1e3, 1e6, 1e8, 1e10][int(rng.integers(0, 5))]
    k = 1
    if start:
        nskip = int(start * rng.uniform(0.3, 1.0))
        okc, _ = ctx.call("request-shape", g.skip_samples_for_next_generation, nskip,
                          detail={**tag, "skip": nskip})
        if not okc:
            return
        k += nskip
    k0 = k
    nreq = int(rng.integers(300, 1200)) if ctx.tier == "quick" else int(rng.integers(300, 6000))
    sizes = rng.integers(1, 4, size=nreq)
    if rng.random() < 0.3:
        sizes[:] = 1
    chunks = []
    d = lambda **e: (lambda: {**tag, "start": k0, "requests": nreq, **e})
    for n in sizes:
        n = int(n)
        try:
            g.generate_more_samples(n)
            c = g.get_samples()
        except Exception as e:           # noqa: BLE001 - the library raised mid-run
            ctx.ev("request-shape", False, cls="generate-raised", detail=d(exc=repr(e), k=k))
            return
        if np.shape(c) != st + (n,):
            ctx.ev("request-shape", False, cls="wrong-count-or-shape",
                   detail=d(got=np.shape(c), want=st + (n,), k=k))
            return
        chunks.append(c)
        k += n
    ctx.ev("request-shape", True, n=nreq)
    allh = np.concatenate([np.asarray(c) for c in chunks], axis=-1)
    total = k - k0
    tk = float(k * Ts)
    if phi is not None:
        # decide the tail (where any accumulated drift is largest) and a spread
        pick = np.unique(np.concatenate([[0, total - 1], np.arange(max(0, total - 40), total),
                                         rng.integers(0, total, size=60)]))
        hm = model_samples(phi, psi, Fd, Ts, L, k0 + pick)
        tol = math.sqrt(L) * (2 * math.pi * Fd * tk * EPS * 40 + 1e-12)
        err = float(np.max(np.abs(allh[..., pick] - hm)))
        ctx.stat("sample-equals-model", err / tol)
        ctx.ev("sample-equals-model", err <= tol, n=len(pick), cls="long-run-of-small-requests",
               detail=d(error=err, tolerance=tol, got=allh[..., -3:].ravel()[:3],
                        want=hm[..., -3:].ravel()[:3]))
    else:
        ctx.tally("absolute-model-not-attached")
    g2, _ = build(rng, seed, Fd, Ts, L, shape)
    try:
        if k0 - 1 > 0:
            g2.skip_samples_for_next_generation(k0 - 1)
        g2.generate_more_samples(total)
        s2 = np.asarray(g2.get_samples())
        tol = math.sqrt(L) * (2 * math.pi * Fd * tk * EPS * 80 + 1e-12)
        same = s2.shape == allh.shape and float(np.max(np.abs(s2 - allh))) <= tol
        ctx.ev("chunking-independent", same, cls="long-run-twin",
               detail=d(twin_shape=s2.shape, maxdiff=float(np.max(np.abs(s2 - allh)))
                        if s2.shape == allh.shape else None, tolerance=tol))
    except Exception as e:               # noqa: BLE001
        ctx.ev("chunking-independent", False, cls="twin-raised", detail=d(exc=repr(e)))
    ctx.sig("long", len(st), L, Ts, int(math.log10(max(k0, 1))), nreq // 500, bool(np.all(sizes == 1)))
    ctx.sample("long-run", {**tag, "start": k0, "requests": nreq, "samples": total})


def classify(w):
    return None


GENS = {"history": Gen(case_history, 1000, 8000),
        "function": Gen(case_function, 600, 60000),
        "long-run": Gen(case_longrun, 60, 4000)}
MIN_EVALS = {"request-shape": 2000, "sample-equals-model": 5000,
             "chunking-independent": 1000, "magnitude-bound": 2000,
             "zero-doppler-constant": 300}
