"""C20 -- subspace / linear-algebra kernels satisfy their defining identities."""
from __future__ import annotations

import math

import numpy as np

from .core import Gen
from . import num
from .num import EPS, fro, herm

from pyphysim.subspace import projections as PJ
from pyphysim.subspace import metrics as MT
from pyphysim.util import misc as MISC
from pyphysim.util import conversion as CV

ID = "C20"
RULE = ("matrices are built from an SVD with prescribed singular values "
        "(condition number log-uniform in [1,1e4]; [1,1e6] for gmd/eig), real "
        "and complex, sizes 1..8, singular-value classes {log-uniform, equal, "
        "repeated, two-level}; unit conversions over 30 decades as python "
        "floats, numpy scalars and arrays (arguments are also checked for not "
        "being mutated).  Signature = (kernel, rows, cols/subspace dim, "
        "real|complex, sv-class, decade of kappa); non-trivial = matrix with "
        "more than one entry / value != reference point.  "
        "Chordal distances also between subspaces of different dimensions and "
        "for unit-norm non-orthogonal bases; a third of the covariances are "
        "Hermitian only up to rounding; leig on rank-deficient G G^H must "
        "return an orthonormal null-space basis. ")
ASSUMPTIONS = ["tolerances are c*eps*n*kappa^p backward-error bounds with the "
               "kappa the generator prescribed; the principal-angle route is "
               "allowed sqrt(eps) (arccos near 1)",
               "references: numpy SVD / eigh / solve"]

SVK = ["loguniform", "equal", "repeated", "two-level"]


def copy_args(*a):
    return [np.array(x, copy=True) if isinstance(x, np.ndarray) else x for x in a]


def unmutated(ctx, name, before, after):
    ok = all((not isinstance(b, np.ndarray)) or
             (b.shape == a.shape and np.array_equal(b, a))
             for b, a in zip(before, after))
    ctx.ev("args-not-mutated", ok, cls=name, detail={"function": name})


def ortho_basis(A):
    U, s, _ = np.linalg.svd(A, full_matrices=False)
    return U


# ----------------------------------------------------------------------------
def case_projection(ctx, rng, idx):
    m = int(rng.integers(1, 9))
    k = int(rng.integers(1, m + 1))
    real = bool(idx % 2)
    kind = SVK[(idx // 2) % len(SVK)]
    scale = 10.0 ** rng.uniform(-3, 3)
    A, kappa = num.controlled_matrix(rng, m, k, 1e4, real, kind, scale)
    tol = 64 * EPS * m * kappa ** 2
    d = lambda: {"A": A, "kappa": kappa, "shape": (m, k), "real": real}
    before = copy_args(A)
    ok, P = ctx.call("projection-identities", PJ.Projection, A, detail=d)
    if not ok:
        return
    unmutated(ctx, "Projection", before, [A])
    Q, oQ = P.Q, P.oQ
    ctx.hold("projection-identities", "Projection.Q", Q)
    ctx.hold("projection-identities", "Projection.oQ", oQ)
    I = np.eye(m)
    U = ortho_basis(A)
    ctx.within("projection-identities", fro(Q - herm(Q)), tol, "hermitian", d)
    ctx.within("projection-identities", fro(Q @ Q - Q), tol, "idempotent", d)
    ctx.within("projection-identities", fro(Q @ A - A), tol * fro(A), "QA=A", d)
    ctx.within("projection-identities", fro(Q + oQ - I), 8 * EPS * m, "Q+oQ=I", d)
    ctx.within("projection-identities", fro(Q - U @ herm(U)), tol, "equals-UU^H", d)
    ctx.within("projection-identities", fro(oQ @ A), tol * fro(A), "oQ A=0", d)
    M = num.randn_c(rng, m, int(rng.integers(1, 4))) if not real else \
        rng.standard_normal((m, int(rng.integers(1, 4))))
    r2 = P.reflect(P.reflect(M))
    ctx.within("projection-identities", fro(r2 - M), 8 * tol * fro(M), "reflect-twice", d)
    ctx.within("projection-identities", fro(P.project(M) + P.oProject(M) - M),
               8 * EPS * m * fro(M), "project+oProject", d)
    # a vector inside the subspace is unchanged, one orthogonal to it vanishes
    v_in = A @ (rng.standard_normal(k))
    ctx.within("projection-identities", fro(P.project(v_in) - v_in),
               tol * fro(v_in), "inside-unchanged", d)
    # static aliases
    Qs = PJ.calcProjectionMatrix(A)
    oQs = PJ.calcOrthogonalProjectionMatrix(A)
    ctx.within("projection-identities", fro(Qs - Q) + fro(oQs - oQ), 8 * EPS * m,
               "static-alias", d)
    if m > 1:
        ctx.sig("projection", m, k, real, kind, int(math.log10(kappa)))
    ctx.sample("projection", {"shape": [m, k], "real": real, "kappa": kappa,
                              "svals": kind})


def case_chordal(ctx, rng, idx):
    m = int(rng.integers(2, 9))
    k = int(rng.integers(1, m))
    real = bool(idx % 2)
    kind = SVK[(idx // 2) % len(SVK)]
    A, ka = num.controlled_matrix(rng, m, k, 1e3, real, kind, 10.0 ** rng.uniform(-2, 2))
    mode = ["generic", "same-basis-change", "close", "orthogonal", "different-dims",
            "unit-columns"][(idx // 8) % 6]
    if mode == "different-dims":
        return case_chordal_dims(ctx, rng, m, real, kind)
    if mode in ("generic", "unit-columns"):
        B, kb = num.controlled_matrix(rng, m, k, 1e3, real, kind, 10.0 ** rng.uniform(-2, 2))
        if mode == "unit-columns":
            # bases as precoders are usually stored: unit-norm (not orthogonal) columns
            A = A / np.linalg.norm(A, axis=0)
            B = B / np.linalg.norm(B, axis=0)
            if rng.random() < 0.5:
                T, kt = num.controlled_matrix(rng, k, k, 1e2, real)
                B = A @ T
                B = B / np.linalg.norm(B, axis=0)          # the same subspace
                kb = ka * kt
                mode = "unit-columns-same-subspace"
    elif mode == "same-basis-change":
        T, kt = num.controlled_matrix(rng, k, k, 1e2, real)
        B, kb = A @ T, ka * kt
    elif mode == "close":
        B = A + 10.0 ** rng.uniform(-9, -2) * fro(A) * (
            rng.standard_normal((m, k)) if real else num.randn_c(rng, m, k))
        kb = ka * 2
    else:
        U = num.rand_unitary(rng, m, real)
        kk = min(k, m - k)
        if kk == 0:
            return
        A, B = U[:, :kk] @ num.controlled_matrix(rng, kk, kk, 1e2, real)[0], \
            U[:, kk:2 * kk] @ num.controlled_matrix(rng, kk, kk, 1e2, real)[0]
        ka = kb = 1e2
        k = kk
    kap = max(ka, kb)
    tol = 64 * EPS * m * kap ** 2
    tol_ang = 32 * math.sqrt(EPS) * math.sqrt(k) + tol
    d = lambda: {"A": A, "B": B, "mode": mode, "kappa": kap}
    before = copy_args(A, B)
    UA, UB = ortho_basis(A), ortho_basis(B)
    dref = fro(UA @ herm(UA) - UB @ herm(UB)) / math.sqrt(2)
    ok1, d1 = ctx.call("chordal-agree", MT.calc_chordal_distance, A, B, detail=d)
    ok2, d2 = ctx.call("chordal-agree", MT.calc_chordal_distance_2, A, B, detail=d)
    ok3, pa = ctx.call("chordal-agree", MT.calc_principal_angles, A, B, detail=d)
    if not (ok1 and ok2 and ok3):
        return
    d3 = MT.calc_chordal_distance_from_principal_angles(pa)
    unmutated(ctx, "chordal", before, [A, B])
    ctx.within("chordal-agree", abs(d1 - dref), tol, "qr-vs-reference", d)
    ctx.within("chordal-agree", abs(d2 - dref), tol, "projection-vs-reference", d)
    ctx.within("chordal-agree", abs(d3 - dref), tol_ang, "angles-vs-reference", d)
    ctx.ev("chordal-agree", len(np.atleast_1d(pa)) == k and
           bool(np.all((np.asarray(pa) >= 0) & (np.asarray(pa) <= np.pi / 2 + 1e-12))),
           cls="angles-range", detail=d)
    # symmetry
    ctx.within("chordal-symmetric", abs(MT.calc_chordal_distance(B, A) - d1), tol, "qr", d)
    ctx.within("chordal-symmetric", abs(MT.calc_chordal_distance_2(B, A) - d2), tol, "proj", d)
    d3r = MT.calc_chordal_distance_from_principal_angles(MT.calc_principal_angles(B, A))
    ctx.within("chordal-symmetric", abs(d3r - d3), tol_ang, "angles", d)
    if mode in ("same-basis-change", "unit-columns-same-subspace"):
        ctx.within("chordal-zero-same-subspace", d1, tol, "qr", d)
        ctx.within("chordal-zero-same-subspace", d2, tol, "proj", d)
        ctx.within("chordal-zero-same-subspace", d3, tol_ang, "angles", d)
    if mode == "orthogonal":
        ctx.within("chordal-agree", abs(d1 - math.sqrt(k)), tol, "orthogonal=sqrt(k)", d)
    # unitary invariance
    W = num.rand_unitary(rng, m, real)
    ctx.within("chordal-unitary-invariant",
               abs(MT.calc_chordal_distance(W @ A, W @ B) - d1), tol, "qr", d)
    ctx.within("chordal-unitary-invariant",
               abs(MT.calc_chordal_distance_2(W @ A, W @ B) - d2), tol, "proj", d)
    # rescaling a basis does not change the subspace
    c = 10.0 ** rng.uniform(-3, 3)
    ctx.within("chordal-basis-invariant",
               abs(MT.calc_chordal_distance_2(c * A, B) - d2), tol, "proj-rescale", d)
    ctx.within("chordal-basis-invariant",
               abs(MT.calc_chordal_distance(c * A, B) - d1), tol, "qr-rescale", d)
    ctx.sig("chordal", m, k, real, kind, mode)
    ctx.sample("chordal:" + mode, {"shape": [m, k], "mode": mode, "d": [d1, d2, d3],
                                   "d_ref": dref})


def case_chordal_dims(ctx, rng, m, real, kind):
    """Subspaces of different dimensions: the distance between the projectors
    is still defined; both routines must agree with it and be symmetric."""
    if m < 3:
        m = 3
    k1 = int(rng.integers(1, m - 1))
    k2 = int(rng.integers(k1 + 1, m))
    A, ka = num.controlled_matrix(rng, m, k1, 1e3, real, kind, 10.0 ** rng.uniform(-2, 2))
    B, kb = num.controlled_matrix(rng, m, k2, 1e3, real, kind, 10.0 ** rng.uniform(-2, 2))
    if rng.random() < 0.5:
        A, B, ka, kb = B, A, kb, ka
    kap = max(ka, kb)
    tol = 64 * EPS * m * kap ** 2
    d = lambda: {"A": A, "B": B, "mode": "different-dims", "kappa": kap}
    UA, UB = ortho_basis(A), ortho_basis(B)
    dref = fro(UA @ herm(UA) - UB @ herm(UB)) / math.sqrt(2)
    ok1, d1 = ctx.call("chordal-agree", MT.calc_chordal_distance, A, B, detail=d)
    ok2, d2 = ctx.call("chordal-agree", MT.calc_chordal_distance_2, A, B, detail=d)
    if not (ok1 and ok2):
        return
    ctx.within("chordal-agree", abs(d1 - dref), tol, "qr-vs-reference:different-dims", d)
    ctx.within("chordal-agree", abs(d2 - dref), tol, "projection-vs-reference:different-dims", d)
    ctx.within("chordal-symmetric", abs(MT.calc_chordal_distance(B, A) - d1), tol,
               "qr:different-dims", d)
    ctx.within("chordal-symmetric", abs(MT.calc_chordal_distance_2(B, A) - d2), tol,
               "proj:different-dims", d)
    ctx.sig("chordal", m, (A.shape[1], B.shape[1]), real, kind, "different-dims")


def case_gmd(ctx, rng, idx):
    m = int(rng.integers(1, 9))
    n = int(rng.integers(1, 9))
    if idx % 3 == 0:
        n = m
    real = bool(idx % 2)
    kind = SVK[(idx // 2) % len(SVK)]
    A, kappa = num.controlled_matrix(rng, m, n, 1e6, real, kind, 10.0 ** rng.uniform(-2, 2))
    U, S, V_H = np.linalg.svd(A)
    d = lambda: {"A": A, "kappa": kappa, "shape": (m, n), "svals": S}
    before = copy_args(U, S, V_H)
    ok, res = ctx.call("gmd", MISC.gmd, U, S, V_H, detail=d)
    if not ok:
        return
    unmutated(ctx, "gmd", before, [U, S, V_H])
    Q, R, P = res
    p = min(m, n)
    tol = 256 * EPS * max(m, n) * kappa
    nA = fro(A)
    ctx.within("gmd", fro(Q @ R @ herm(P) - A), tol * nA, "reconstructs", d)
    ctx.within("gmd", fro(herm(Q) @ Q - np.eye(Q.shape[1])), tol, "Q-orthonormal", d)
    ctx.within("gmd", fro(herm(P) @ P - np.eye(P.shape[1])), tol, "P-orthonormal", d)
    ctx.ev("gmd", R.shape == (m, n) and fro(np.tril(R, -1)) == 0.0,
           cls="upper-triangular", detail=d)
    gm = float(np.exp(np.mean(np.log(S[:p]))))
    ctx.within("gmd", float(np.max(np.abs(np.diagonal(R)[:p] - gm))), tol * gm * 16,
               "constant-diagonal", d)
    # the tolerance form: singular values below `tol` are left out of the
    # geometric mean; the decomposition then reproduces A up to those values
    if p >= 2 and idx % 2 == 0:
        keep = int(rng.integers(1, p))
        s0 = 10.0 ** rng.uniform(-1, 1)
        sv = np.concatenate([s0 * np.sort(10.0 ** rng.uniform(-2, 0, keep))[::-1],
                             s0 * 1e-9 * np.sort(rng.uniform(0.1, 1, p - keep))[::-1]])
        A2 = num.matrix_with_svals(rng, m, n, sv, real)
        U2, S2, V2 = np.linalg.svd(A2)
        tl = s0 * 1e-6
        d2 = lambda: {"A": A2, "svals": S2, "tol": tl, "kept": keep, "shape": (m, n)}
        ok, res2 = ctx.call("gmd", MISC.gmd, U2, S2, V2, tl, cls="tol-form-raised", detail=d2)
        if ok:
            Q2, R2, P2 = res2
            k2 = float(S2[0] / S2[keep - 1])
            t2 = 256 * EPS * max(m, n) * k2
            disc = float(np.linalg.norm(S2[keep:]))
            ctx.within("gmd", fro(Q2 @ R2 @ herm(P2) - A2), t2 * fro(A2) + 4 * disc,
                       "tol-form:reconstructs-kept-part", d2)
            ctx.within("gmd", fro(herm(Q2) @ Q2 - np.eye(Q2.shape[1])), t2,
                       "tol-form:Q-orthonormal", d2)
            ctx.within("gmd", fro(herm(P2) @ P2 - np.eye(P2.shape[1])), t2,
                       "tol-form:P-orthonormal", d2)
            gm2 = float(np.exp(np.mean(np.log(S2[:keep]))))
            ctx.within("gmd", float(np.max(np.abs(np.diagonal(R2)[:keep] - gm2))), t2 * gm2 * 16,
                       "tol-form:constant-diagonal-of-kept-values", d2)
    if max(m, n) > 1:
        ctx.sig("gmd", m, n, real, kind, int(math.log10(kappa)))
    ctx.sample("gmd", {"shape": [m, n], "kappa": kappa, "diag": np.diagonal(R)[:p]})


def herm_pd(rng, n, real, kappa_max=1e4, min_gap=1e-3, symmetrise=True):
    """Hermitian positive definite with eigenvalues separated by a relative
    gap >= min_gap (np.linalg.eig based kernels need distinct eigenvalues for
    orthogonal eigenvectors)."""
    kappa = float(np.exp(rng.uniform(0, np.log(kappa_max))))
    kappa = max(kappa, (1 + min_gap) ** (2 * n))        # room for n separated values
    for _ in range(50):
        lam = np.sort(np.exp(rng.uniform(-np.log(kappa), 0, n)))[::-1]
        if n == 1 or np.min(lam[:-1] / lam[1:]) >= 1 + min_gap:
            break
    else:       # rejection sampling failed: geometric spacing (always separated)
        lam = kappa ** (-np.arange(n) / max(n - 1, 1))
    lam = lam * 10.0 ** rng.uniform(-2, 2)
    U = num.rand_unitary(rng, n, real)
    C = (U * lam) @ herm(U)
    if symmetrise:
        C = (C + herm(C)) / 2        # else: Hermitian only up to rounding, as a computed
    gap = float(np.min(lam[:-1] / lam[1:]) - 1) if n > 1 else 1.0
    return C, lam, float(lam[0] / lam[-1]), gap


def case_eig(ctx, rng, idx):
    n = int(rng.integers(1, 9))
    real = bool(idx % 2)
    C, lam, kappa, gap = herm_pd(rng, n, real, 1e6, symmetrise=(idx // 2) % 3 != 0)
    d = lambda: {"C": C, "eigenvalues": lam, "kappa": kappa,
                 "exactly_hermitian": bool(np.array_equal(C, herm(C)))}
    tol = 256 * EPS * n * kappa / min(gap, 1.0)
    # whitening
    ok, W = ctx.call("whitening", MISC.calc_whitening_matrix, C, detail=d)
    if ok:
        ctx.within("whitening", fro(herm(W) @ C @ W - np.eye(n)), tol, None, d)
    # peig / leig
    k = int(rng.integers(1, n + 1))
    for name, fn, want in (("peig", MISC.peig, lam[:k]), ("leig", MISC.leig, lam[::-1][:k])):
        ok, res = ctx.call("eig-selectors", fn, C, k, detail=d)
        if not ok:
            continue
        V, D = res
        ctx.ev("eig-selectors", V.shape == (n, k) and D.shape == (k,), cls=name + "-shape",
               detail=d)
        if V.shape != (n, k):
            continue
        ctx.within("eig-selectors", fro(C @ V - V * D), 256 * EPS * n * fro(C),
                   name + "-eigenpairs", d)
        ctx.within("eig-selectors", float(np.max(np.abs(D - want))),
                   256 * EPS * n * lam[0], name + "-selection-and-order", d)
        ctx.within("eig-selectors", float(np.max(np.abs(np.linalg.norm(V, axis=0) - 1))),
                   64 * EPS * n, name + "-unit-vectors", d)
    # rank-deficient covariance (G G^H with few columns): the repeated zero
    # eigenvalue must still give orthonormal vectors spanning the null space
    if n >= 3:
        r = int(rng.integers(1, n - 1))
        G = rng.standard_normal((n, r)) if real else num.randn_c(rng, n, r)
        Cd = G @ herm(G)
        kk = int(rng.integers(2, n - r + 1))
        dd = lambda: {"C": Cd, "rank": r, "n_vectors": kk}
        ok, res = ctx.call("eig-selectors", MISC.leig, Cd, kk, cls="leig-rank-deficient-raised",
                           detail=dd)
        if ok:
            V, D = res
            nc = fro(Cd)
            ctx.within("eig-selectors", fro(herm(V) @ V - np.eye(kk)), 1e3 * EPS * n,
                       "leig-null-space-orthonormal", dd)
            ctx.within("eig-selectors", fro(Cd @ V), 1e3 * EPS * n * nc, "leig-null-space", dd)
            ctx.within("eig-selectors", float(np.max(np.abs(D))), 1e3 * EPS * n * nc,
                       "leig-null-eigenvalues", dd)
    # diagonal update of an inverse
    dvec = 10.0 ** rng.uniform(-3, 2, n) * lam[0]
    if rng.random() < 0.2:
        dvec[rng.integers(0, n)] = 0.0
    if rng.random() < 0.4:
        # negative updates too (small enough to keep the matrix well conditioned)
        for _ in range(int(rng.integers(1, n + 1))):
            dvec[rng.integers(0, n)] = -float(rng.uniform(0.05, 0.5)) * lam[-1]
    invC = np.linalg.inv(C)
    before = copy_args(invC, dvec)
    ok, upd = ctx.call("inverse-diag-update", MISC.update_inv_sum_diag, invC, dvec, detail=d)
    if ok:
        unmutated(ctx, "update_inv_sum_diag", before, [invC, dvec])
        ref = np.linalg.inv(C + np.diag(dvec))
        ctx.within("inverse-diag-update", fro(upd - ref),
                   1024 * EPS * n * kappa ** 2 * fro(invC),
                   "negative-entries" if np.any(dvec < 0) else "non-negative", d)
    # the same update on a general (non-Hermitian) invertible matrix
    Gm, kg = num.controlled_matrix(rng, n, n, 1e3, real, "loguniform", 10.0 ** rng.uniform(-1, 1))
    dv = 10.0 ** rng.uniform(-2, 1, n) * float(np.linalg.norm(Gm, 2)) * kg
    invG = np.linalg.inv(Gm)
    dg = lambda: {"A": Gm, "d": dv, "kappa": kg}
    ok, upd = ctx.call("inverse-diag-update", MISC.update_inv_sum_diag, invG, dv,
                       cls="general-matrix-raised", detail=dg)
    c2 = float(np.linalg.cond(Gm + np.diag(dv)))
    if ok and c2 <= 1e4:          # (a general matrix plus a diagonal may be near singular)
        ref = np.linalg.inv(Gm + np.diag(dv))
        ctx.within("inverse-diag-update", fro(upd - ref),
                   1024 * EPS * n * n * kg * c2 * (fro(invG) + fro(ref)), "general-matrix", dg)
    elif ok:
        ctx.tally("general-matrix-update-ill-conditioned")
    if n > 1:
        ctx.sig("eig", n, real, k, int(math.log10(kappa)))
    ctx.sample("eig", {"n": n, "real": real, "eigenvalues": lam, "k": k})


def case_singvec(ctx, rng, idx):
    m = int(rng.integers(1, 9))
    n = int(rng.integers(1, 9))
    real = bool(idx % 2)
    kind = ["loguniform", "two-level"][(idx // 2) % 2]
    A, kappa = num.controlled_matrix(rng, m, n, 1e4, real, "loguniform")
    lo = 0          # (wide matrices too: their n - m zero singular values count)
    k = int(rng.integers(lo, n + 1))
    if k == 0 and n > 0 and rng.random() < 0.5 and lo <= 1:
        k = max(lo, 1)
    d = lambda: {"A": A, "n_least": k, "shape": (m, n)}
    ok, res = ctx.call("singular-selectors", MISC.least_right_singular_vectors, A, k,
                       detail=d)
    if not ok:
        return
    V0, V1, S = res
    sv = np.linalg.svd(A, compute_uv=False)
    full = np.concatenate([sv, np.zeros(max(0, n - m))])       # n values, descending
    asc = full[::-1]
    tol = 256 * EPS * max(m, n) * sv[0]
    ctx.ev("singular-selectors", V0.shape == (n, k) and V1.shape == (n, n - k) and
           S.shape == (n - k,), cls="shapes", detail=d)
    if V0.shape != (n, k) or V1.shape != (n, n - k):
        return
    VV = np.hstack([V0, V1])
    ctx.within("singular-selectors", fro(herm(VV) @ VV - np.eye(n)), 64 * EPS * n,
               "V0,V1-orthonormal", d)
    if k:
        ctx.within("singular-selectors",
                   float(np.max(np.abs(np.linalg.norm(A @ V0, axis=0) - asc[:k]))), tol,
                   "V0-are-least", d)
    if n - k:
        ctx.within("singular-selectors",
                   float(np.max(np.abs(np.sort(S) - np.sort(asc[k:])))), tol,
                   "S-are-the-remaining", d)
        ctx.within("singular-selectors",
                   float(np.max(np.abs(np.sort(np.linalg.norm(A @ V1, axis=0)) -
                                       np.sort(asc[k:])))), tol, "V1-are-dominant", d)
        # S[i] is documented as the singular value of the i-th column of V1
        if np.shape(S) == (n - k,):
            ctx.within("singular-selectors",
                       float(np.max(np.abs(np.linalg.norm(A @ V1, axis=0) - np.asarray(S)))),
                       tol, "S-in-the-order-of-V1", d)
    # principal components: the r dominant left singular directions are kept
    r = int(rng.integers(1, min(m, n) + 1))
    if m < n:       # only defined for tall/square matrices (as the IA code uses it)
        ctx.sig("singvec", m, n, real, k)
        return
    ok, out = ctx.call("principal-components", MISC.get_principal_component_matrix, A, r,
                       detail=d)
    if ok:
        U = np.linalg.svd(A)[0][:, :r]
        ctx.ev("principal-components", out.shape == (m, r), cls="shape", detail=d)
        if out.shape == (m, r):
            ctx.within("principal-components", fro(out - U @ (herm(U) @ out)),
                       tol * 16, "inside-dominant-subspace", d)
            if r == n:
                ctx.within("principal-components", fro(out - A), tol * 16,
                           "all-components=A", d)
    if max(m, n) > 1:
        ctx.sig("singvec", m, n, real, k)
    ctx.sample("singvec", {"shape": [m, n], "n_least": k})


def case_units(ctx, rng, idx):
    form = ["pyfloat", "npscalar", "1d", "2d"][idx % 4]
    lin = 10.0 ** rng.uniform(-15, 15, size=(3, 4))
    if form == "pyfloat":
        x = float(lin[0, 0])
    elif form == "npscalar":
        x = np.float64(lin[0, 0])
    elif form == "1d":
        x = lin.ravel().copy()
    else:
        x = lin.copy()
    xa = np.asarray(x, dtype=float)
    d = lambda: {"form": form, "x": xa.ravel()[:4]}

    def call(fn, arg):
        before = copy_args(arg)
        ok, r = ctx.call("unit-conversions", fn, arg, detail=d)
        if ok:
            unmutated(ctx, fn.__name__, before, [arg])
        return ok, r

    ok, dB = call(CV.linear2dB, x)
    if ok:
        ref = 10 * np.log10(xa.astype(np.longdouble)).astype(float)
        ctx.within("unit-conversions", float(np.max(np.abs(np.asarray(dB) - ref))),
                   1e-12 * 160, "linear2dB-value", d)
        ok2, back = call(CV.dB2Linear, dB)
        if ok2:
            ctx.within("unit-conversions", float(np.max(np.abs(np.asarray(back) / xa - 1))),
                       1e-12, "dB2Linear(linear2dB)", d)
    ok, dBm = call(CV.linear2dBm, x)
    if ok:
        ctx.within("unit-conversions",
                   float(np.max(np.abs(np.asarray(dBm) - (10 * np.log10(xa) + 30)))),
                   1e-11, "linear2dBm-value", d)
        ok2, back = call(CV.dBm2Linear, dBm)
        if ok2:
            ctx.within("unit-conversions", float(np.max(np.abs(np.asarray(back) / xa - 1))),
                       1e-12, "dBm2Linear(linear2dBm)", d)
            # calling again on the same object gives the same answer
            ok3, back2 = call(CV.dBm2Linear, dBm)
            if ok3:
                ctx.ev("unit-conversions", np.array_equal(np.asarray(back2), np.asarray(back)),
                       cls="repeatable", detail=d)
    # the other direction: dB -> linear -> dB
    if form == "pyfloat":
        y = float(rng.uniform(-150, 150))
    elif form == "npscalar":
        y = np.float64(rng.uniform(-150, 150))
    else:
        y = rng.uniform(-150, 150, size=np.shape(x))
    ya = np.asarray(y, dtype=float)
    ok, l2 = call(CV.dB2Linear, y)
    if ok:
        ctx.within("unit-conversions",
                   float(np.max(np.abs(np.asarray(l2) / 10.0 ** (ya / 10) - 1))), 1e-12,
                   "dB2Linear-value", d)
        ok2, b2 = call(CV.linear2dB, l2)
        if ok2:
            ctx.within("unit-conversions", float(np.max(np.abs(np.asarray(b2) - ya))), 1e-11,
                       "linear2dB(dB2Linear)", d)
    ok, l3 = call(CV.dBm2Linear, y)
    if ok:
        ctx.within("unit-conversions",
                   float(np.max(np.abs(np.asarray(l3) / 10.0 ** ((ya - 30) / 10) - 1))),
                   1e-11, "dBm2Linear-value", d)
        ok2, b3 = call(CV.linear2dBm, l3)
        if ok2:
            ctx.within("unit-conversions", float(np.max(np.abs(np.asarray(b3) - ya))), 1e-10,
                       "linear2dBm(dBm2Linear)", d)
    # Eb/N0 <-> SNR
    bits = int(rng.integers(1, 13))
    ok, e = ctx.call("unit-conversions", CV.SNR_dB_to_EbN0_dB, y, bits, detail=d)
    if ok:
        ctx.within("unit-conversions",
                   float(np.max(np.abs(np.asarray(e) - (ya - 10 * math.log10(bits))))), 1e-11,
                   "SNR->EbN0-value", d)
        ok2, s = ctx.call("unit-conversions", CV.EbN0_dB_to_SNR_dB, e, bits, detail=d)
        if ok2:
            ctx.within("unit-conversions", float(np.max(np.abs(np.asarray(s) - ya))), 1e-11,
                       "EbN0->SNR inverse", d)
    ctx.sig("units", form, bits)
    ctx.sample("units", {"form": form, "x": xa.ravel()[:3]})


def case_bits(ctx, rng, idx):
    """level2bits / int2bits against int.bit_length (exhaustive 0..4096 in
    blocks of 64, then powers of two +-1 up to 2^62)."""
    if idx < 65:
        vals = list(range(idx * 64, idx * 64 + 64))
    else:
        k = idx - 65 + 12
        vals = [2 ** k - 1, 2 ** k, 2 ** k + 1]
    for n in vals:
        if n >= 0:
            ok, b = ctx.call("bit-widths", MISC.int2bits, n, detail={"n": n})
            if ok:
                ctx.ev("bit-widths", b == max(1, n.bit_length()), cls="int2bits",
                       detail={"n": n, "got": b})
        if n >= 1:
            ok, b = ctx.call("bit-widths", MISC.level2bits, n, detail={"n": n})
            if ok:
                ctx.ev("bit-widths", b == max(1, (n - 1).bit_length()), cls="level2bits",
                       detail={"n": n, "got": b})
    ctx.sig("bits", idx)


GENS = {
    "projection": Gen(case_projection, 1200, 120000),
    "chordal": Gen(case_chordal, 1200, 120000),
    "gmd": Gen(case_gmd, 1500, 150000),
    "eig": Gen(case_eig, 1200, 120000),
    "singvec": Gen(case_singvec, 1200, 120000),
    "units": Gen(case_units, 800, 80000),
    "bits": Gen(case_bits, 65 + 51, 65 + 51, exhaustive=True),
}
MIN_EVALS = {"projection-identities": 5000, "chordal-agree": 3000,
             "chordal-symmetric": 2000, "chordal-zero-same-subspace": 300,
             "chordal-unitary-invariant": 1000, "chordal-basis-invariant": 1000,
             "gmd": 5000, "whitening": 500, "eig-selectors": 3000,
             "inverse-diag-update": 500, "singular-selectors": 2000,
             "principal-components": 1000, "unit-conversions": 3000,
             "bit-widths": 4000, "args-not-mutated": 3000}
