#!/bin/sh
# Offline: install the contract libraries beside the harness (git-ignored).
HERE=$(cd "$(dirname "$0")" && pwd)
[ -d "$HERE/.deps/icontract" ] && exit 0
exec /venv/bin/pip install -q --no-index --find-links /opt/veriftools/wheels \
     --target "$HERE/.deps" icontract deal
